#!/usr/bin/env python3
"""Token-level lifting of a Rust source tree: f32 -> ::verif_rt::Sf  (DESIGN.md section 2.1(2)).

Rules (purely lexical; comments, strings, chars and lifetimes are never touched; the
number of lines of every file is preserved so panic locations refer to /repo's lines):

  R1  identifier token `f32`                      -> ::verif_rt::Sf
  R2  float literal token (0.0, 1e-3, 0.0_f32)    -> ::verif_rt::Sf::C(<lit>f32)
      (not after `.` (tuple index / field), not an integer, not a range bound `0..1`)
  R3  paths std::collections::...                 -> ::verif_rt::collections::...
      (`use` trees that mention std::collections are flattened into simple `use`s)
  R4  method name serialize_f32                   -> serialize_sf  (+ `use ::verif_rt::SerializerSfExt as _;`)
  R5  Cargo.toml: add the dependency verif_rt = { path = ... }

  R6  numeric cast `E as <prim>`                  -> (::verif_rt::cast::to_<prim>(E))   (E: the unary / postfix
      expression the cast applies to; `as` cannot be overloaded, so a cast from or to the lifted scalar goes through
      a trait: int -> f32 builds a constant, f32 -> int concretises on the path witness and records the pinning
      comparisons as decisions)

mode "maponly" applies only R3 and R5 (used for order-deterministic native runs).
"""
import os
import re
import sys


def lex(src):
    """Return a list of (kind, text) covering all of src.
    kinds: ws, comment, str, char, lifetime, num, ident, punct"""
    i, n = 0, len(src)
    out = []
    while i < n:
        c = src[i]
        if c.isspace():
            j = i
            while j < n and src[j].isspace():
                j += 1
            out.append(('ws', src[i:j])); i = j; continue
        if src.startswith('//', i):
            j = src.find('\n', i)
            if j < 0:
                j = n
            out.append(('comment', src[i:j])); i = j; continue
        if src.startswith('/*', i):
            depth, j = 1, i + 2
            while j < n and depth:
                if src.startswith('/*', j):
                    depth += 1; j += 2
                elif src.startswith('*/', j):
                    depth -= 1; j += 2
                else:
                    j += 1
            out.append(('comment', src[i:j])); i = j; continue
        m = re.match(r'(?:b|c)?r(#*)"', src[i:i + 40])
        if m:
            hashes = m.group(1)
            end = src.find('"' + hashes, i + len(m.group(0)))
            if end < 0:
                raise SystemExit('lift: unterminated raw string')
            j = end + 1 + len(hashes)
            out.append(('str', src[i:j])); i = j; continue
        if c == '"' or (c in 'bc' and i + 1 < n and src[i + 1] == '"'):
            j = i + (2 if c != '"' else 1)
            while j < n and src[j] != '"':
                j += 2 if src[j] == '\\' else 1
            j += 1
            out.append(('str', src[i:j])); i = j; continue
        if c == "'" or (c == 'b' and i + 1 < n and src[i + 1] == "'"):
            k = i + (1 if c == "'" else 2)
            m = re.match(r"(\\(?:x[0-9a-fA-F]{2}|u\{[0-9a-fA-F_]+\}|.)|[^\\'])'", src[k:k + 16])
            if m:
                j = k + len(m.group(0))
                out.append(('char', src[i:j])); i = j; continue
            m = re.match(r"[A-Za-z_][A-Za-z0-9_]*", src[k:k + 80])
            if m:
                j = k + len(m.group(0))
                out.append(('lifetime', src[i:j])); i = j; continue
            out.append(('punct', c)); i += 1; continue
        if c.isdigit():
            m = re.match(r'0[xob][0-9a-fA-F_]+(?:[iu](?:8|16|32|64|128|size))?', src[i:i + 80])
            if not m:
                m = re.match(
                    r'[0-9][0-9_]*(?:\.(?![.A-Za-z_])[0-9_]*)?(?:[eE][+-]?[0-9_]+)?'
                    r'(?:_?(?:f32|f64|[iu](?:8|16|32|64|128|size)))?', src[i:i + 80])
            j = i + len(m.group(0))
            out.append(('num', src[i:j])); i = j; continue
        if c.isalpha() or c == '_':
            m = re.match(r'(?:r#)?[A-Za-z_][A-Za-z0-9_]*', src[i:i + 200])
            j = i + len(m.group(0))
            out.append(('ident', src[i:j])); i = j; continue
        out.append(('punct', c)); i += 1
    return out


def is_float_lit(t):
    if re.match(r'0[xob]', t):
        return False
    if re.search(r'(?:[iu](?:8|16|32|64|128|size))$', t):
        return False
    if t.endswith('f64'):
        return False
    return ('.' in t) or bool(re.search(r'[eE][+-]?[0-9]', t)) or t.endswith('f32')


# ---------------------------------------------------------------- use-tree flattening

def sig(toks, i):
    """index of next significant token at or after i (or len)"""
    n = len(toks)
    while i < n and toks[i][0] in ('ws', 'comment'):
        i += 1
    return i


def parse_use_tree(toks, i, prefix, acc):
    """Parse a use tree starting at toks[i]; append (segments, suffix) to acc; return next index.
    suffix is '', '::*' or ' as name'."""
    segs = list(prefix)
    i = sig(toks, i)
    # optional leading ::
    if toks[i][1] == ':' and toks[sig(toks, i + 1)][1] == ':':
        i = sig(toks, sig(toks, i + 1) + 1)
        segs.append('')  # marks global path
    while True:
        i = sig(toks, i)
        k, t = toks[i]
        if k == 'ident':
            segs.append(t)
            i = sig(toks, i + 1)
            if toks[i][1] == ':' and toks[sig(toks, i + 1)][1] == ':':
                i = sig(toks, sig(toks, i + 1) + 1)
                continue
            if toks[i] == ('ident', 'as'):
                i = sig(toks, i + 1)
                acc.append((segs, ' as ' + toks[i][1]))
                return sig(toks, i + 1)
            acc.append((segs, ''))
            return i
        if t == '*':
            acc.append((segs, '::*'))
            return sig(toks, i + 1)
        if t == '{':
            i = sig(toks, i + 1)
            while toks[i][1] != '}':
                i = parse_use_tree(toks, i, segs, acc)
                i = sig(toks, i)
                if toks[i][1] == ',':
                    i = sig(toks, i + 1)
            return sig(toks, i + 1)
        raise SystemExit('lift: cannot parse use tree near %r' % (toks[i:i + 5],))


def is_std_collections(segs):
    s = [x for x in segs if x != '']
    return len(s) >= 2 and s[0] == 'std' and s[1] == 'collections'


def rewrite_uses(toks):
    """Flatten `use` declarations that mention std::collections; returns new token list."""
    out = []
    i, n = 0, len(toks)
    prev_sig = None
    while i < n:
        k, t = toks[i]
        if k == 'ident' and t == 'use' and (prev_sig is None or prev_sig[1] in (';', '}', '{', ']', ')') or prev_sig == ('ident', 'pub')):
            # find the terminating ';'
            j = i + 1
            depth = 0
            while j < n and not (toks[j][1] == ';' and depth == 0 and toks[j][0] == 'punct'):
                if toks[j][0] == 'punct' and toks[j][1] == '{':
                    depth += 1
                if toks[j][0] == 'punct' and toks[j][1] == '}':
                    depth -= 1
                j += 1
            stmt = toks[i:j + 1]
            text = ''.join(x[1] for x in stmt)
            if 'collections' in text:
                acc = []
                body = toks[i + 1:j] + [('punct', ';')]
                parse_use_tree(body, 0, [], acc)
                if any(is_std_collections(s) for s, _ in acc):
                    parts = []
                    for segs, suffix in acc:
                        glob = segs and segs[0] == ''
                        s = [x for x in segs if x != '']
                        if is_std_collections(segs):
                            s = ['', 'verif_rt', 'collections'] + s[2:]
                            path = '::'.join(s)
                        else:
                            path = ('::' if glob else '') + '::'.join(s)
                        # `use a::b::self` is only legal inside braces
                        if s and s[-1] == 'self':
                            path = '::'.join(s[:-1]) if not glob else '::' + '::'.join(s[:-1])
                        parts.append('use %s%s;' % (path, suffix))
                    # keep visibility: the tokens before `use` are already in out
                    vis = ''
                    if prev_sig == ('ident', 'pub'):
                        vis = 'pub '
                    new = (' ' + vis).join(parts)
                    nl = text.count('\n')
                    out.append(('raw', new + '\n' * nl))
                    i = j + 1
                    prev_sig = ('punct', ';')
                    continue
        out.append((k, t))
        if k not in ('ws', 'comment'):
            prev_sig = (k, t)
        i += 1
    return out


def rewrite_paths(toks):
    """std :: collections (expression / type paths) -> ::verif_rt :: collections"""
    out = list(toks)
    n = len(out)
    for i, (k, t) in enumerate(out):
        if k == 'ident' and t == 'std':
            a = sig(out, i + 1)
            if a < n and out[a][1] == ':':
                b = sig(out, a + 1)
                if b < n and out[b][1] == ':':
                    c = sig(out, b + 1)
                    if c < n and out[c] == ('ident', 'collections'):
                        # drop a leading `::` if present
                        out[i] = ('raw', '::verif_rt')
                        p = i - 1
                        while p >= 0 and out[p][0] in ('ws', 'comment'):
                            p -= 1
                        if p >= 1 and out[p][1] == ':' and out[p - 1][1] == ':':
                            out[p] = ('raw', ''); out[p - 1] = ('raw', '')
    return out


PRIMS = {'f32', 'f64', 'i8', 'i16', 'i32', 'i64', 'i128', 'isize', 'u8', 'u16', 'u32', 'u64', 'u128', 'usize'}
KEYWORDS = {'if', 'while', 'match', 'return', 'in', 'let', 'else', 'as', 'for', 'loop', 'move', 'mut', 'ref', 'break',
            'continue', 'unsafe', 'where', 'const', 'static', 'fn', 'impl', 'dyn', 'pub', 'use', 'mod', 'struct', 'enum',
            'type', 'trait', 'yield', 'await', 'box'}
OPEN = {')': '(', ']': '[', '}': '{'}


def rewrite_casts(toks):
    """R6.  Lexical: the operand of `as` is a postfix expression (path, literal, parenthesised group, call, index,
    field / method chain, `?`) with its unary prefix operators.  Casts whose operand cannot be delimited this way
    (blocks, closures) are left alone."""
    def psig(j):
        while j >= 0 and toks[j][0] in ('ws', 'comment'):
            j -= 1
        return j

    def match_open(j):
        close = toks[j][1]
        depth = 0
        while j >= 0:
            k, t = toks[j]
            if k == 'punct' and t in OPEN:
                depth += 1
            elif k == 'punct' and t in OPEN.values():
                depth -= 1
                if depth == 0:
                    return j if t == OPEN[close] else -1
            j -= 1
        return -1

    def match_angle(j):
        depth = 0
        while j >= 0:
            k, t = toks[j]
            if k == 'punct' and t == '>' and not (j > 0 and toks[j - 1] == ('punct', '-')):
                depth += 1
            elif k == 'punct' and t == '<':
                depth -= 1
                if depth == 0:
                    return j
            elif k == 'punct' and t in ';{}':
                return -1
            j -= 1
        return -1

    def operand_start(pos):
        """index of the first token of the operand that ends just before toks[pos] (`as`), or -1"""
        j = psig(pos - 1)
        start = -1
        while j >= 0:
            k, t = toks[j]
            if k == 'punct' and t == '?':
                j = psig(j - 1); continue
            if k == 'punct' and t in (')', ']'):
                o = match_open(j)
                if o < 0:
                    return -1
                start = o
                j = psig(o - 1)
                if j >= 0 and toks[j] == ('punct', '!'):          # macro call  name!(..)
                    q = psig(j - 1)
                    if q >= 0 and toks[q][0] == 'ident' and toks[q][1] not in KEYWORDS:
                        start = q; j = psig(q - 1)
                elif j >= 0 and toks[j] == ('punct', '>'):        # turbofish  f::<T>(..)
                    a = match_angle(j)
                    q = psig(a - 1) if a > 0 else -1
                    if a > 0 and q >= 1 and toks[q] == ('punct', ':') and toks[q - 1] == ('punct', ':'):
                        j = psig(q - 2)
                        continue_chain = True
                    else:
                        return start
                    # the path segment before `::<`
                    if j >= 0 and toks[j][0] == 'ident' and toks[j][1] not in KEYWORDS:
                        start = j; j = psig(j - 1)
                    else:
                        return -1
                elif j >= 0 and toks[j][0] == 'ident' and toks[j][1] not in KEYWORDS and t == ')':
                    start = j; j = psig(j - 1)                    # call  f(..)
                elif j >= 0 and t == ']' and (toks[j][0] == 'ident' and toks[j][1] not in KEYWORDS or toks[j] in (('punct', ')'), ('punct', ']'))):
                    continue                                      # index  e[..]
            elif k in ('ident', 'num', 'str', 'char'):
                if k == 'ident' and t in KEYWORDS and t not in ('self', 'Self', 'crate', 'super'):
                    return start
                start = j
                j = psig(j - 1)
            else:
                return start
            # chain: `.` or `::` continues the postfix expression to the left
            if j >= 0 and toks[j] == ('punct', '.'):
                q = psig(j - 1)
                if q >= 0 and toks[q] == ('punct', '.'):          # range `..`
                    return start
                j = q; continue
            if j >= 1 and toks[j] == ('punct', ':') and toks[j - 1] == ('punct', ':'):
                j = psig(j - 2)
                if j < 0 or toks[j][0] != 'ident':
                    start = j + 1 if j >= 0 else 0                # leading `::`
                    # find the actual first `:` token
                    q = start
                    while q < pos and toks[q] != ('punct', ':'):
                        q += 1
                    return q
                continue
            return start
        return start

    def unary_prefix(start):
        """extend over unary - ! * & in prefix position"""
        while True:
            j = psig(start - 1)
            if j < 0 or toks[j][0] != 'punct' or toks[j][1] not in '-!*&':
                return start
            q = psig(j - 1)
            prefix_pos = q < 0 or (toks[q][0] == 'punct' and toks[q][1] in '([{,;=<>+-*/%!&|^:') or (toks[q][0] == 'ident' and toks[q][1] in KEYWORDS)
            if not prefix_pos:
                return start
            start = j

    i = 0
    while i < len(toks):
        if toks[i] == ('ident', 'as'):
            nx = sig(toks, i + 1)
            after = sig(toks, nx + 1) if nx < len(toks) else nx
            is_prim = nx < len(toks) and toks[nx][0] == 'ident' and toks[nx][1] in PRIMS
            path_follows = after + 1 < len(toks) and toks[after] == ('punct', ':') and toks[after + 1] == ('punct', ':')
            if is_prim and not path_follows:
                st = operand_start(i)
                if st is not None and st >= 0:
                    st = unary_prefix(st)
                    prim = toks[nx][1]
                    # drop ` as prim` (keeping any newlines), wrap the operand
                    dropped = ''.join(t for _, t in toks[psig(i - 1) + 1:nx + 1])
                    keep_nl = '\n' * dropped.count('\n')
                    head = [('punct', '('), ('raw', '::verif_rt::cast::to_%s' % prim), ('punct', '(')]
                    e = psig(i - 1)
                    toks = toks[:st] + head + toks[st:e + 1] + [('punct', ')'), ('punct', ')')] + ([('ws', keep_nl)] if keep_nl else []) + toks[nx + 1:]
                    i = st + 3 + (e + 1 - st) + 2
                    continue
        i += 1
    return toks


def lift_source(src, mode='full'):
    toks = lex(src)
    toks = rewrite_uses(toks)
    toks = rewrite_paths(toks)
    if mode == 'maponly':
        return ''.join(t for _, t in toks)
    toks = rewrite_casts(toks)
    out = []
    prev_sig = None
    uses_ser = False
    for idx, (k, t) in enumerate(toks):
        if k == 'ident' and t == 'f32':
            out.append('::verif_rt::Sf')
        elif k == 'ident' and t == 'serialize_f32':
            out.append('serialize_sf'); uses_ser = True
        elif k == 'num' and is_float_lit(t) and not (prev_sig and prev_sig[1] == '.'):
            body = re.sub(r'_?f32$', '', t)
            if body.endswith('.'):
                body += '0'
            if '.' not in body and 'e' not in body.lower():
                body += '.0'
            out.append('::verif_rt::Sf::C(%sf32)' % body)
        else:
            out.append(t)
        if k not in ('ws', 'comment'):
            prev_sig = (k, t)
    s = ''.join(out)
    if uses_ser:
        # add the extension-trait import on the line of the first `use` (keeps line count)
        m = re.search(r'^(\s*)use ', s, flags=re.M)
        if m:
            s = s[:m.start()] + m.group(1) + 'use ::verif_rt::SerializerSfExt as _; ' + s[m.start() + len(m.group(1)):]
        else:
            s = 'use ::verif_rt::SerializerSfExt as _; ' + s
    return s


def lift_tree(src_root, dst_root, rt_path, mode='full'):
    """Mirror src_root/{src,tests,test_data,Cargo.toml,Cargo.lock} into dst_root, lifted.
    Files are written only when their content differs from what is already there, so that
    cargo's mtime fingerprints see exactly the real changes (of /repo or of the lifter)."""
    wanted = set()
    changed = 0

    def put(rel, data):
        nonlocal changed
        wanted.add(rel)
        p = os.path.join(dst_root, rel)
        os.makedirs(os.path.dirname(p), exist_ok=True)
        try:
            old = open(p, 'rb').read()
        except OSError:
            old = None
        if old != data:
            open(p, 'wb').write(data)
            changed += 1

    for top in ('src', 'tests', 'test_data'):
        base = os.path.join(src_root, top)
        for d, dirs, fs in os.walk(base):
            for f in fs:
                p = os.path.join(d, f)
                rel = os.path.relpath(p, src_root)
                raw = open(p, 'rb').read()
                if f.endswith('.rs') and mode != 'plain':
                    s = raw.decode('utf-8')
                    t = lift_source(s, mode)
                    if s.count('\n') != t.count('\n'):
                        raise SystemExit('lift: line count changed in %s' % p)
                    raw = t.encode('utf-8')
                put(rel, raw)
    s = open(os.path.join(src_root, 'Cargo.toml')).read()
    if mode != 'plain':
        dep = 'verif_rt = { path = "%s" }\n' % rt_path
        s2 = re.sub(r'(\[dependencies\]\n)', lambda m: m.group(1) + dep, s, count=1)
        if s2 == s:
            raise SystemExit('lift: no [dependencies] in Cargo.toml')
        s = s2
    put('Cargo.toml', s.encode())
    lock = os.path.join(src_root, 'Cargo.lock')
    if os.path.exists(lock) and not os.path.exists(os.path.join(dst_root, 'Cargo.lock')):
        put('Cargo.lock', open(lock, 'rb').read())
    wanted.add('Cargo.lock')
    # remove stale files
    for top in ('src', 'tests', 'test_data'):
        for d, dirs, fs in os.walk(os.path.join(dst_root, top)):
            for f in fs:
                rel = os.path.relpath(os.path.join(d, f), dst_root)
                if rel not in wanted:
                    os.remove(os.path.join(dst_root, rel)); changed += 1
    return changed


if __name__ == '__main__':
    if len(sys.argv) < 4:
        raise SystemExit('usage: lift.py <repo> <dst> <verif_rt path> [full|maponly|plain]')
    mode = sys.argv[4] if len(sys.argv) > 4 else 'full'
    n = lift_tree(sys.argv[1], sys.argv[2], sys.argv[3], mode)
    print('lift: %d files written (%s)' % (n, mode))
