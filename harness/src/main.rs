//! Harness entry point.
//!
//!   harness list   <prop> <tier> <seed>                 unit ids, one per line
//!   harness run    <prop> <unit> <out.json>             (lifted build) explore all paths, decide obligations
//!   harness native <prop> <unit> <assignments.json> <out.json>
//!                                                       (native build) run the scenario on concrete inputs
mod common;
mod props;

use common::Unit;
use std::collections::BTreeMap;

fn env_u64(k: &str, d: u64) -> u64 {
    std::env::var(k).ok().and_then(|s| s.parse().ok()).unwrap_or(d)
}

#[cfg(feature = "lifted")]
fn run(prop: &str, unit: &str, outp: &str) {
    use verif_rt::explore::{install_panic_hook, Explorer, Opts};
    let u = Unit::parse(unit);
    verif_rt::maps::set_policy(u.get_or("ord", "ins"));
    verif_rt::dag::SCALE_NORM.store(u.get_or("scale", "0") == "1", std::sync::atomic::Ordering::Relaxed);
    install_panic_hook();
    let opts = Opts {
        seed: env_u64("VERIF_SEED", 0),
        timeout_s: env_u64("VERIF_QTIMEOUT", 30),
        max_paths: env_u64("VERIF_MAXPATHS", 20000) as usize,
        simplify: u.get_or("simp", "1") == "1",
        verbose: std::env::var("VERIF_VERBOSE").is_ok(),
        // `bud=<s>` in a unit caps its own budget (units kept for refutation: paths, witnesses and same-path variants
        // come first, what is left of the budget goes to the solver rungs)
        budget_s: u.get("bud").parse::<f64>().map(|b| b.min(env_u64("VERIF_UNIT_BUDGET", 100000) as f64)).unwrap_or(env_u64("VERIF_UNIT_BUDGET", 100000) as f64),
        strict_unexplored: props::strict_unexplored(prop),
        late_timeout_s: env_u64("VERIF_LATE_TIMEOUT", 2),
        threads: env_u64("VERIF_THREADS", 4) as usize,
        flip_timeout_s: env_u64("VERIF_FLIP_TIMEOUT", env_u64("VERIF_QTIMEOUT", 30)),
        narrow_flips: env_u64("VERIF_NARROW_FLIPS", 0) == 1,
    };
    let mut ex = Explorer::new(opts);
    let rep = ex.run_unit(unit, &|| props::scenario(prop, &u));
    std::fs::write(outp, serde_json::to_string(&rep).unwrap()).unwrap();
    let s = &rep.stats;
    eprintln!(
        "[{}] {} paths={} ob={} (id {} iv {} lem {} smt {} viol {} und {}) queries={} hits={} t={:.1}s",
        prop, unit, s.paths, s.ob_total, s.ob_identity, s.ob_interval, s.ob_lemma, s.ob_solver, s.ob_violated, s.ob_undecided, s.solver_queries, s.solver_cache_hits, s.wall_s
    );
}

#[cfg(not(feature = "lifted"))]
fn run(_prop: &str, _unit: &str, _outp: &str) {
    eprintln!("`run` needs the lifted build");
    std::process::exit(2);
}

#[cfg(not(feature = "lifted"))]
fn native(prop: &str, unit: &str, inp: &str, outp: &str) {
    let u = Unit::parse(unit);
    // the native build differs from /repo only in the hash-map type (same iteration-order policy as
    // the symbolic run, so that results are comparable bit for bit)
    verif_rt::maps::set_policy(u.get_or("ord", "ins"));
    let assigns: Vec<BTreeMap<String, String>> = serde_json::from_str(&std::fs::read_to_string(inp).unwrap()).unwrap();
    std::panic::set_hook(Box::new(|_| {}));
    let mut results = vec![];
    for a in assigns {
        let m: std::collections::HashMap<String, f32> =
            a.iter().map(|(k, v)| (k.clone(), f32::from_bits(u32::from_str_radix(v, 16).unwrap()))).collect();
        verif_rt::scalar::native_reset(m, env_u64("VERIF_SEED", 0));
        let res = std::panic::catch_unwind(|| props::scenario(prop, &u));
        let rec = verif_rt::scalar::native_take();
        let outcome = match res {
            Ok(s) => s,
            Err(_) => "panic:".to_string(),
        };
        let outs: Vec<(String, String)> = rec.outs.iter().map(|(n, v)| (n.clone(), format!("{:08x}", v.to_bits()))).collect();
        let obs: Vec<(String, bool)> = rec.obs.clone();
        results.push(serde_json::json!({"outcome": outcome, "outs": outs, "obs": obs, "missing": rec.missing, "notes": rec.notes}));
    }
    std::fs::write(outp, serde_json::to_string(&results).unwrap()).unwrap();
}

#[cfg(feature = "lifted")]
fn native(_prop: &str, _unit: &str, _inp: &str, _outp: &str) {
    eprintln!("`native` needs the native build");
    std::process::exit(2);
}

fn main() {
    let a: Vec<String> = std::env::args().collect();
    match a.get(1).map(|s| s.as_str()) {
        Some("list") => {
            for u in props::units(&a[2], &a[3], a[4].parse().unwrap()) {
                println!("{}", u);
            }
        }
        Some("props") => {
            for p in props::ALL {
                println!("{}", p);
            }
        }
        Some("run") => run(&a[2], &a[3], &a[4]),
        Some("native") => native(&a[2], &a[3], &a[4], &a[5]),
        _ => {
            eprintln!("usage: harness list|run|native ...");
            std::process::exit(2);
        }
    }
    let _ = BTreeMap::<String, String>::new();
}
