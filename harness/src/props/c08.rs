//! C08 — simplifying the factor set never changes the result.

use crate::common::*;
#[allow(unused_imports)]
use cteepbd::*;

pub fn units(tier: &str, seed: u64) -> Vec<String> {
    let shapes: &[&str] = &[
        "U:CAL:ELECTRICIDAD;P:EL_INSITU",
        "U:ILU:ELECTRICIDAD;P:EL_INSITU;U:NEPB:ELECTRICIDAD",
        "U:ACS:ELECTRICIDAD;P:EL_COGEN;U:COGEN:GASNATURAL;U:NEPB:ELECTRICIDAD",
        "U:CAL:GASNATURAL;U:NEPB:ELECTRICIDAD",
        "1/U:ACS:EAMBIENTE;1/P:EAMBIENTE;1/U:ACS:ELECTRICIDAD",
        "U:ACS:TERMOSOLAR;P:TERMOSOLAR",
        // output-energy line first / last / auxiliaries as the only electricity
        "1/O:CAL;1/U:CAL:GASNATURAL",
        "1/U:CAL:GASNATURAL;1/O:CAL",
        "1/U:CAL:GASNATURAL;1/X",
        "1/U:CAL:GASNATURAL;1/U:ACS:GASNATURAL;1/X;1/O:CAL;1/O:ACS",
        "U:CAL:RED1;U:ACS:BIOMASA",
        // non-EPB use of ambient / solar energy without any non-EPB electricity; cogeneration listed before PV
        "U:ACS:EAMBIENTE;U:NEPB:EAMBIENTE",
        "U:ACS:TERMOSOLAR;P:TERMOSOLAR;U:NEPB:TERMOSOLAR;P:EL_INSITU;U:CAL:ELECTRICIDAD",
        "P:EL_COGEN;U:COGEN:GASNATURAL;P:EL_INSITU;U:CAL:ELECTRICIDAD",
        "1/P:EL_COGEN;1/U:COGEN:GASNATURAL;2/P:EL_INSITU;U:CAL:ELECTRICIDAD;U:NEPB:GASNATURAL",
        // an auxiliary line alone in its system, PV surplus, no non-EPB use anywhere
        "7/X;P:EL_INSITU;U:CAL:ELECTRICIDAD",
        // auxiliaries of a system whose only consumption is the cogeneration input
        "1/U:COGEN:GASNATURAL;1/P:EL_COGEN;1/X;2/P:EL_INSITU;U:CAL:ELECTRICIDAD",
    ];
    let extra = catalogue(seed, if tier == "thorough" { 30 } else { 4 }, &[]);
    let mut v = vec![];
    for s in shapes {
        v.push(unit(&[("shape", s), ("n", "1"), ("fs", "PEN"), ("k", "sym")]));
    }
    for s in &shapes[..3] {
        v.push(unit(&[("shape", s), ("n", "1"), ("fs", "SYM"), ("k", "sym")]));
    }
    for s in &extra {
        v.push(unit(&[("shape", s), ("n", "1"), ("fs", "PEN"), ("k", "0")]));
    }
    // a user file that spells out every factor, cogeneration and ambient / solar export factors included
    for s in [shapes[2], shapes[13], shapes[12], "U:ACS:EAMBIENTE;P:EAMBIENTE;U:NEPB:EAMBIENTE;U:CAL:ELECTRICIDAD;P:EL_COGEN;U:COGEN:BIOMASA"] {
        v.push(unit(&[("shape", s), ("n", "1"), ("fs", "FULL"), ("k", "sym")]));
    }
    if tier == "thorough" {
        for s in shapes {
            v.push(unit(&[("shape", s), ("n", "2"), ("fs", "BAL"), ("k", "sym"), ("lm", "1")]));
        }
        v.push(unit(&[("shape", "U:CAL:ELECTRICIDAD;U:ACS:GASNATURAL;P:EL_INSITU;P:EL_COGEN;U:COGEN:BIOMASA;U:NEPB:ELECTRICIDAD;2/X;2/U:REF:ELECTRICIDAD"), ("n", "1"), ("fs", "SYM"), ("k", "sym")]));
    }
    v
}

pub fn scenario(u: &Unit) -> String {
    let e = match prepare(u) {
        Ok(e) => e,
        Err(s) => return s,
    };
    spec(false);
    let stripped = e.fp.clone().strip(&e.comps);
    spec(true);
    let full = evaluate_with(&e, &e.fp, e.kexp, e.area, e.lm);
    let slim = evaluate_with(&e, &stripped, e.kexp, e.area, e.lm);
    match (full, slim) {
        (Ok(a), Ok(b)) => {
            rec_ep("full", &a);
            rec_ep("slim", &b);
            let (la, lb) = (leaves(&a), leaves(&b));
            if la.len() != lb.len() {
                ob("same-structure", f());
                return "ok".into();
            }
            for ((n, x), (m, y)) in la.iter().zip(lb.iter()) {
                if n != m {
                    ob("same-structure", f());
                    return "ok".into();
                }
                ob(&format!("same{}", n), x.ident(*y));
            }
            "ok".into()
        }
        (Err(a), Err(b)) => {
            ob("same-error-kind", if a == b { t() } else { f() });
            format!("err-both:{}", a)
        }
        (Ok(_), Err(b)) => {
            ob("simplification-turns-success-into-error", f());
            format!("err-slim:{}", b)
        }
        (Err(a), Ok(_)) => {
            ob("simplification-turns-error-into-success", f());
            format!("err-full:{}", a)
        }
    }
}
