//! C09 — annual results do not depend on how time is laid out.

use crate::common::*;
use cteepbd::*;

pub fn units(tier: &str, _seed: u64) -> Vec<String> {
    let shapes: &[&str] = &[
        "U:CAL:ELECTRICIDAD;P:EL_INSITU",
        "U:ILU:ELECTRICIDAD;P:EL_INSITU;U:NEPB:ELECTRICIDAD",
        "U:ACS:ELECTRICIDAD;P:EL_COGEN;U:COGEN:GASNATURAL",
        "1/U:ACS:ELECTRICIDAD;1/U:ACS:EAMBIENTE;1/P:EAMBIENTE",
    ];
    let mut v = vec![];
    for s in shapes {
        // permutation of two steps; subdivision of one step into two halves
        v.push(unit(&[("shape", s), ("n", "2"), ("fs", "PEN"), ("k", "sym"), ("what", "perm")]));
        v.push(unit(&[("shape", s), ("n", "1"), ("fs", "PEN"), ("k", "sym"), ("what", "sub2"), ("scale", "1")]));
    }
    v.push(unit(&[("shape", shapes[2]), ("n", "1"), ("fs", "PEN"), ("k", "sym"), ("what", "sub2"), ("lm", "1"), ("scale", "1")]));
    v.push(unit(&[("shape", shapes[0]), ("n", "2"), ("fs", "PEN"), ("k", "sym"), ("what", "perm"), ("lm", "1")]));
    // auxiliary energy of a two-service system with a step without output energy between two steps whose output
    // mixes differ: the by-service split of that step must not depend on which step comes before it
    v.push(unit(&[("shape", "1/~U:CAL:GASNATURAL;1/~U:ACS:GASNATURAL;1/~X;1/~O:CAL;1/~O:ACS"), ("n", "3"), ("fs", "PEN"), ("k", "sym"), ("what", "perm"), ("zero", "c3_1,c4_1"), ("bud", "40")]));
    // (annual sums of a dozen terms in another association are beyond what the solver decides: these units are kept
    // for what they refute - path witnesses and same-path variants - and their budget is small)
    // long series (a symbolic first step, fixed constants afterwards): monthly data split into half-months and
    // reversed, with and without load matching - step counts on both sides of 12
    for lm in ["0", "1"] {
        v.push(unit(&[("shape", shapes[0]), ("n", "12"), ("win", "1"), ("fs", "PEN"), ("k", "sym"), ("what", "sub2"), ("lm", lm), ("scale", "1"), ("bud", "30")]));
        v.push(unit(&[("shape", shapes[1]), ("n", "13"), ("win", "1"), ("fs", "PEN"), ("k", "sym"), ("what", "perm"), ("lm", lm), ("bud", "30")]));
    }
    // an hourly year from a two-hourly one (4380 -> 8760 steps), with load matching
    v.push(unit(&[("shape", shapes[0]), ("n", "4380"), ("win", "1"), ("fs", "PEN"), ("k", "sym"), ("what", "sub2"), ("lm", "1"), ("scale", "1"), ("bud", "30")]));
    if tier == "thorough" {
        for s in shapes {
            v.push(unit(&[("shape", s), ("n", "3"), ("fs", "CAN"), ("k", "sym"), ("what", "perm")]));
            v.push(unit(&[("shape", s), ("n", "2"), ("fs", "CAN"), ("k", "sym"), ("what", "sub2"), ("scale", "1")]));
            v.push(unit(&[("shape", s), ("n", "1"), ("fs", "CAN"), ("k", "sym"), ("what", "sub4"), ("scale", "1")]));
        }
    }
    v
}

fn annual(name: &str) -> bool {
    !name.contains('[')
}

pub fn scenario(u: &Unit) -> String {
    let lines = parse_shape(u.get("shape"));
    let n = u.n();
    let what = u.get("what");
    let fp = match factors(u.get_or("fs", "PEN"), &carriers_of(&lines)) {
        Ok(x) => x,
        Err(e) => return err_kind(&e).to_string(),
    };
    let kexp = input("kexp", Dom::Range(0.0, 1.0));
    let base_text = shape_text(&lines, n);
    // the transformed layout
    let m: usize = match what {
        "sub2" => 2,
        "sub4" => 4,
        _ => 1,
    };
    let perm: Vec<usize> = if what == "perm" { (0..n).rev().collect() } else { (0..n).collect() };
    let new_text = {
        let mut s = String::new();
        for l in &lines {
            let mut vals: Vec<String> = vec![];
            for &t in &perm {
                for _ in 0..m {
                    let v = if m == 1 { line_value(l, t) } else { k(1.0 / m as f32) * line_value(l, t) };
                    vals.push(format!("{}", v));
                }
            }
            s.push_str(&render_line(l, &vals));
            s.push('\n');
        }
        s
    };
    let run = |text: &str| {
        spec(false);
        let r = text.parse::<Components>().and_then(|cs| energy_performance(&cs, &fp, kexp, k(1.0), u.lm()));
        spec(true);
        r.map_err(|e| err_kind(&e).to_string())
    };
    let (a, b) = match (run(&base_text), run(&new_text)) {
        (Ok(a), Ok(b)) => (a, b),
        (Err(x), Err(y)) => {
            ob("same-error", if x == y { t() } else { f() });
            return format!("err-both:{}", x);
        }
        (Err(e), _) | (_, Err(e)) => {
            ob("same-outcome", f());
            return format!("outcome-differs:{}", e);
        }
    };
    rec_ep("base", &a);
    rec_ep("new", &b);
    let (la, lb) = (leaves(&a), leaves(&b));
    let mut mag = k(0.0);
    for l in &lines {
        for t in 0..n {
            mag = mag + line_value(l, t).abs_();
        }
    }
    // annual leaves are unchanged
    let annual_b: Vec<&(String, F)> = lb.iter().filter(|x| annual(&x.0)).collect();
    let annual_a: Vec<&(String, F)> = la.iter().filter(|x| annual(&x.0)).collect();
    if annual_a.len() != annual_b.len() || annual_a.iter().zip(annual_b.iter()).any(|(x, y)| x.0 != y.0) {
        ob("same-annual-structure", f());
        return "ok".into();
    }
    // the renewable ratios are quotients ren / (ren + nren): roundings of the (re-associated) annual sums are
    // magnified by 1 / |total|, which exported energy can bring arbitrarily close to zero (same conditioning as in C14)
    let tot = (a.balance.we.b.ren + a.balance.we.b.nren).abs_();
    for (x, y) in annual_a.iter().zip(annual_b.iter()) {
        let is_ratio = x.0.ends_with(".rer") || x.0.ends_with(".rer_nrb") || x.0.ends_with(".rer_onst");
        let m_tol = if is_ratio { (k(4.0) * mag * (k(1.0) + x.1.abs_())) / tot } else { mag + x.1.abs_() };
        ob_via(&format!("annual{}", x.0), "same-term", x.1.ident(y.1), x.1.approx(y.1, 64.0 * (n * m) as f32, m_tol));
    }
    // per-step vectors follow the permutation / subdivision
    for (nm, x) in la.iter().filter(|x| !annual(&x.0)) {
        let (stem, idx) = nm.rsplit_once('[').unwrap();
        let t: usize = idx.trim_end_matches(']').parse().unwrap();
        let pos = perm.iter().position(|p| *p == t).unwrap();
        for r in 0..m {
            let target = format!("{}[{}]", stem, pos * m + r);
            let ratio_like = stem.ends_with(".f_match");
            match lb.iter().find(|y| y.0 == target) {
                Some((_, y)) => {
                    let want = if m == 1 || ratio_like { *x } else { k(1.0 / m as f32) * *x };
                    ob_via(&format!("step{}->{}", nm, target), "same-term", y.ident(want), y.approx(want, 64.0, mag + want.abs_()));
                }
                None => ob(&format!("step{}->{}.present", nm, target), f()),
            }
        }
    }
    "ok".into()
}
