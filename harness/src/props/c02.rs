//! C02 — results equal the EN ISO 52000-1 balance equations evaluated independently.
//!
//! The reference below is written from the standard's equations (2), (9)-(14), (20)-(28), (32)
//! and the five documented assumptions, directly from the declared inputs and the prepared
//! factor list; it does not call any function of the implementation's balance module.  Where the
//! standard leaves the order of a sum open the reference folds in declaration order.

use crate::common::*;
use cteepbd::types::*;
use cteepbd::*;

pub fn units(tier: &str, _seed: u64) -> Vec<String> {
    let shapes: &[&str] = &[
        "U:CAL:ELECTRICIDAD;P:EL_INSITU",
        "U:ILU:ELECTRICIDAD;P:EL_INSITU;U:NEPB:ELECTRICIDAD",
        "U:ACS:ELECTRICIDAD;P:EL_COGEN;U:COGEN:GASNATURAL;U:NEPB:ELECTRICIDAD",
        "U:CAL:ELECTRICIDAD;U:ACS:ELECTRICIDAD;P:EL_INSITU;P:EL_COGEN;U:COGEN:GASNATURAL",
        "U:ACS:TERMOSOLAR;P:TERMOSOLAR;U:CAL:GASNATURAL",
        "U:ACS:EAMBIENTE;P:EAMBIENTE;U:NEPB:EAMBIENTE;U:ACS:ELECTRICIDAD",
        // cogeneration fed by two fuels
        "U:ILU:ELECTRICIDAD;P:EL_COGEN;U:COGEN:GASNATURAL;U:COGEN:BIOMASA",
        // auxiliary electricity of single-service systems: EPB electricity use of that service, also when it is
        // the building's only electricity
        "4/U:CAL:GASNATURAL;4/X",
        "1/U:ACS:ELECTRICIDAD;1/X;P:EL_INSITU;2/U:CAL:GASNATURAL;2/X",
        // two cogeneration units on the same fuel
        "U:ILU:ELECTRICIDAD;1/P:EL_COGEN;1/U:COGEN:GASNATURAL;2/P:EL_COGEN;2/U:COGEN:GASNATURAL",
    ];
    let mut v = vec![];
    for s in shapes {
        v.push(unit(&[("shape", s), ("n", "1"), ("fs", "SYM"), ("k", "sym"), ("a", "sym"), ("lm", "0")]));
    }
    v.push(unit(&[("shape", shapes[1]), ("n", "2"), ("fs", "SYM"), ("k", "sym"), ("a", "sym"), ("lm", "0")]));
    v.push(unit(&[("shape", shapes[2]), ("n", "2"), ("fs", "PEN"), ("k", "sym"), ("a", "sym"), ("lm", "0")]));
    v.push(unit(&[("shape", shapes[0]), ("n", "1"), ("fs", "SYM"), ("k", "sym"), ("a", "sym"), ("lm", "1")]));
    // load matching with two prioritised sources (what is left for the second one is eq. (11), not what was used)
    v.push(unit(&[("shape", shapes[3]), ("n", "1"), ("fs", "PEN"), ("k", "sym"), ("a", "sym"), ("lm", "1")]));
    // a user file that spells out every factor (cogeneration supply and export, ambient-heat export)
    v.push(unit(&[("shape", shapes[2]), ("n", "1"), ("fs", "FULL"), ("k", "sym"), ("a", "sym"), ("lm", "0")]));
    v.push(unit(&[("shape", shapes[5]), ("n", "1"), ("fs", "FULL"), ("k", "sym"), ("a", "sym"), ("lm", "0")]));
    if tier == "thorough" {
        for s in shapes {
            v.push(unit(&[("shape", s), ("n", "2"), ("fs", "SYM"), ("k", "sym"), ("a", "sym"), ("lm", "1")]));
            v.push(unit(&[("shape", s), ("n", "1"), ("fs", "CEU"), ("k", "sym"), ("a", "sym"), ("lm", "0")]));
        }
    }
    v
}

#[derive(Clone, Copy)]
struct R3 {
    ren: F,
    nren: F,
    co2: F,
}
impl R3 {
    fn zero() -> R3 {
        R3 { ren: k(0.0), nren: k(0.0), co2: k(0.0) }
    }
    fn of(r: &RenNrenCo2) -> R3 {
        R3 { ren: r.ren, nren: r.nren, co2: r.co2 }
    }
    fn add(self, o: R3) -> R3 {
        R3 { ren: self.ren + o.ren, nren: self.nren + o.nren, co2: self.co2 + o.co2 }
    }
    fn sub(self, o: R3) -> R3 {
        R3 { ren: self.ren - o.ren, nren: self.nren - o.nren, co2: self.co2 - o.co2 }
    }
    /// scalar * factor (the energy is the left operand of the product, as in E * f)
    fn scale_l(self, e: F) -> R3 {
        R3 { ren: e * self.ren, nren: e * self.nren, co2: e * self.co2 }
    }
    /// factor * scalar
    fn scale_r(self, e: F) -> R3 {
        R3 { ren: self.ren * e, nren: self.nren * e, co2: self.co2 * e }
    }
}

fn sum(v: &[F]) -> F {
    <F as Scalar>::sum(v.iter().cloned())
}

struct RefCr {
    del: R3,
    exp_a: R3,
    exp_ab: R3,
    exp: R3,
    a: R3,
    b: R3,
    a_by_srv: Vec<(String, R3)>,
    b_by_srv: Vec<(String, R3)>,
    del_grid_an: F,
    del_an: F,
    exp_an: F,
    exp_grid_an: F,
    exp_nepus_an: F,
    epus_an: F,
    prod_an: F,
}

fn src_of(ps: &str) -> &'static str {
    if ps == "EL_COGEN" {
        "COGEN"
    } else {
        "INSITU"
    }
}

/// weighting factor look-up (first matching line of the prepared list; derived cogeneration factors are passed in)
fn fp_of(fp: &Factors, extra: &[(String, R3)], cr: &str, src: &str, dest: &str, step: &str) -> Option<R3> {
    let key = format!("{}.{}.{}.{}", cr, src, dest, step);
    if let Some(f) = fp.wdata.iter().find(|f| format!("{:?}.{:?}.{:?}.{:?}", f.carrier, f.source, f.dest, f.step) == key) {
        return Some(R3::of(&f.factors()));
    }
    extra.iter().find(|x| x.0 == key).map(|x| x.1)
}

fn reference(cr: &str, lines: &[LineT], n: usize, fp: &Factors, extra: &[(String, R3)], kexp: F, lm: bool) -> Option<RefCr> {
    let zero = k(0.0);
    let one = k(1.0);
    // --- (2), (9): uses and production per step
    let mut use_t = vec![zero; n];
    let mut nep_t = vec![zero; n];
    let mut cgn_t = vec![zero; n];
    let mut use_srv: Vec<(String, Vec<F>)> = vec![];
    let mut prod_j: Vec<(String, Vec<F>)> = vec![];
    for l in lines {
        let vals: Vec<F> = (0..n).map(|t| line_value(l, t)).collect();
        match (l.kind, l.a.as_str(), l.b.as_str()) {
            ('U', "NEPB", c) if c == cr => (0..n).for_each(|t| nep_t[t] = nep_t[t] + vals[t]),
            ('U', "COGEN", c) if c == cr => (0..n).for_each(|t| cgn_t[t] = cgn_t[t] + vals[t]),
            ('U', srv, c) if c == cr => {
                (0..n).for_each(|t| use_t[t] = use_t[t] + vals[t]);
                match use_srv.iter_mut().find(|x| x.0 == srv) {
                    Some(x) => (0..n).for_each(|t| x.1[t] = x.1[t] + vals[t]),
                    None => use_srv.push((srv.to_string(), vals.clone())),
                }
            }
            ('X', _, _) if cr == "ELECTRICIDAD" => {
                // auxiliary electricity is EPB use of the service its system serves (single-service systems only)
                let mut srvs: Vec<&str> = vec![];
                for o in lines.iter().filter(|o| o.kind == 'U' && o.id == l.id && o.a != "NEPB" && o.a != "COGEN") {
                    if !srvs.contains(&o.a.as_str()) {
                        srvs.push(o.a.as_str());
                    }
                }
                if srvs.len() != 1 {
                    return None;
                }
                (0..n).for_each(|t| use_t[t] = use_t[t] + vals[t]);
                match use_srv.iter_mut().find(|x| x.0 == srvs[0]) {
                    Some(x) => (0..n).for_each(|t| x.1[t] = x.1[t] + vals[t]),
                    None => use_srv.push((srvs[0].to_string(), vals.clone())),
                }
            }
            ('P', ps, _) => {
                let pc = match ps {
                    "EL_INSITU" | "EL_COGEN" => "ELECTRICIDAD",
                    x => x,
                };
                if pc == cr {
                    match prod_j.iter_mut().find(|x| x.0 == ps) {
                        Some(x) => (0..n).for_each(|t| x.1[t] = x.1[t] + vals[t]),
                        None => prod_j.push((ps.to_string(), vals.clone())),
                    }
                }
            }
            _ => {}
        }
    }
    let mut prod_t = vec![zero; n];
    for (_, v) in &prod_j {
        (0..n).for_each(|t| prod_t[t] = prod_t[t] + v[t]);
    }
    // --- (32): load matching factor
    let f_t: Vec<F> = (0..n)
        .map(|t| {
            if !lm {
                return one;
            }
            let x = if use_t[t] > zero { prod_t[t] / use_t[t] } else { zero };
            if x <= zero {
                one
            } else {
                (x + one / x - one) / (x + one / x)
            }
        })
        .collect();
    // --- (10)-(14): produced energy used in EPB services, on-site electricity before cogeneration
    let both = cr == "ELECTRICIDAD" && prod_j.iter().any(|x| x.0 == "EL_INSITU") && prod_j.iter().any(|x| x.0 == "EL_COGEN");
    let mut epus_t = vec![zero; n];
    let mut epus_j: Vec<(String, Vec<F>)> = vec![];
    if both {
        let mut left = use_t.clone();
        for ps in ["EL_INSITU", "EL_COGEN"] {
            let p = &prod_j.iter().find(|x| x.0 == ps).unwrap().1;
            let usmax: Vec<F> = (0..n).map(|t| p[t].min_(left[t])).collect();
            left = (0..n).map(|t| left[t] - usmax[t]).collect();
            let used: Vec<F> = (0..n).map(|t| usmax[t] * f_t[t]).collect();
            epus_t = (0..n).map(|t| epus_t[t] + used[t]).collect();
            epus_j.push((ps.to_string(), used));
        }
        // the parts cannot exceed the EPB use
        epus_t = (0..n).map(|t| epus_t[t].min_(use_t[t])).collect();
    } else {
        epus_t = (0..n).map(|t| f_t[t] * use_t[t].min_(prod_t[t])).collect();
        for (ps, p) in &prod_j {
            let used: Vec<F> = (0..n).map(|t| epus_t[t] * if prod_t[t] > zero { p[t] / prod_t[t] } else { zero }).collect();
            epus_j.push((ps.clone(), used));
        }
    }
    // --- delivered and exported energy per step, annual sums
    let exp_t: Vec<F> = (0..n).map(|t| prod_t[t] - epus_t[t]).collect();
    let exp_nep_t: Vec<F> = (0..n).map(|t| exp_t[t].min_(nep_t[t])).collect();
    let exp_grid_t: Vec<F> = (0..n).map(|t| exp_t[t] - exp_nep_t[t]).collect();
    let del_t: Vec<F> = (0..n).map(|t| use_t[t] - epus_t[t]).collect();
    let mut onst_t = vec![zero; n];
    for (ps, p) in &prod_j {
        if src_of(ps) == "INSITU" {
            (0..n).for_each(|t| onst_t[t] = onst_t[t] + p[t]);
        }
    }
    let exp_j_an: Vec<(String, F)> = prod_j.iter().map(|(ps, p)| {
        let e = &epus_j.iter().find(|x| &x.0 == ps).unwrap().1;
        (ps.clone(), sum(&(0..n).map(|t| p[t] - e[t]).collect::<Vec<_>>()))
    }).collect();
    let (exp_nep_an, exp_grid_an, del_grid_an, onst_an, cgn_an) = (sum(&exp_nep_t), sum(&exp_grid_t), sum(&del_t), sum(&onst_t), sum(&cgn_t));
    let exp_an = exp_nep_an + exp_grid_an;
    let epus_use_an = sum(&use_t);
    // --- (20)-(28): weighting
    let fgrid = fp_of(fp, extra, cr, "RED", "SUMINISTRO", "A")?;
    let we_grid = fgrid.scale_l(del_grid_an);
    let we_cgn = if cgn_an == zero { R3::zero() } else { fgrid.scale_l(cgn_an) };
    let we_onst = if onst_an == zero { R3::zero() } else { fp_of(fp, extra, cr, "INSITU", "SUMINISTRO", "A")?.scale_l(onst_an) };
    let we_del = we_grid.add(we_onst).add(we_cgn);
    let (mut exp_a, mut exp_ab, mut exp) = (R3::zero(), R3::zero(), R3::zero());
    if exp_an != zero {
        // export factors averaged by each source's share of the exported energy
        let favg = |dest: &str, step: &str| -> Option<R3> {
            let mut r = R3::zero();
            for (ps, e) in &exp_j_an {
                r = r.add(fp_of(fp, extra, cr, src_of(ps), dest, step)?.scale_r(*e / exp_an));
            }
            Some(r)
        };
        let fa_nep = if exp_nep_an == zero { R3::zero() } else { favg("A_NEPB", "A")? };
        let fa_grid = if exp_grid_an == zero { R3::zero() } else { favg("A_RED", "A")? };
        let nep_a = fa_nep.scale_l(exp_nep_an);
        let grid_a = fa_grid.scale_l(exp_grid_an);
        exp_a = nep_a.add(grid_a);
        let fb_nep = if exp_nep_an == zero { R3::zero() } else { favg("A_NEPB", "B")? };
        let fb_grid = if exp_grid_an == zero { R3::zero() } else { favg("A_RED", "B")? };
        let nep_ab = fb_nep.sub(fa_nep).scale_l(exp_nep_an);
        let grid_ab = fb_grid.sub(fa_grid).scale_l(exp_grid_an);
        exp_ab = nep_ab.add(grid_ab);
        exp = exp_a.add(exp_ab.scale_l(kexp));
    }
    let a = we_del.sub(exp_a);
    let b = we_del.sub(exp);
    // --- E.3.6: shares by service, reverse calculation
    let mut a_by_srv = vec![];
    let mut b_by_srv = vec![];
    for (srv, v) in &use_srv {
        let s_an = sum(v);
        let fs = if epus_use_an > zero { s_an / epus_use_an } else { zero };
        a_by_srv.push((srv.clone(), a.scale_r(fs)));
        b_by_srv.push((srv.clone(), b.scale_r(fs)));
    }
    Some(RefCr {
        del: we_del,
        exp_a,
        exp_ab,
        exp,
        a,
        b,
        a_by_srv,
        b_by_srv,
        del_grid_an,
        del_an: del_grid_an + onst_an + cgn_an,
        exp_an,
        exp_grid_an,
        exp_nepus_an: exp_nep_an,
        epus_an: sum(&epus_t),
        prod_an: sum(&prod_t),
    })
}

fn cmp_r(name: &str, got: &RenNrenCo2, want: &R3, mag: F) {
    for (c, g, w) in [("ren", got.ren, want.ren), ("nren", got.nren, want.nren), ("co2", got.co2, want.co2)] {
        // identical term on the unchanged tree; the tolerant statement is what a counterexample must violate
        ob_via(&format!("{}.{}", name, c), "same-term", g.ident(w), g.approx(w, 64.0, mag + w.abs_()));
    }
}
fn cmp_f(name: &str, got: F, want: F, mag: F) {
    ob_via(name, "same-term", got.ident(want), got.approx(want, 64.0, mag + want.abs_()));
}

pub fn scenario(u: &Unit) -> String {
    let e = match prepare(u) {
        Ok(e) => e,
        Err(s) => return s,
    };
    let ep = match evaluate(&e) {
        Ok(x) => x,
        Err(s) => return s,
    };
    rec_ep("ep", &ep);
    let n = e.n;
    let zero = k(0.0);
    // magnitude for tolerances: sum of inputs times the largest factor (10)
    let mut mag = zero;
    for l in &e.lines {
        for t in 0..n {
            mag = mag + line_value(l, t).abs_();
        }
    }
    let mag = mag * k(10.0);
    // derived factor of cogenerated electricity: weighted annual cogeneration input / annual cogenerated electricity
    let mut extra: Vec<(String, R3)> = vec![];
    let chp: Vec<&LineT> = e.lines.iter().filter(|l| l.kind == 'P' && l.a == "EL_COGEN").collect();
    if !chp.is_empty() {
        let mut pr = vec![zero; 0];
        for l in &chp {
            let v: Vec<F> = (0..n).map(|t| line_value(l, t)).collect();
            pr = if pr.is_empty() { v } else { (0..n).map(|t| pr[t] + v[t]).collect() };
        }
        let pr_an = sum(&pr);
        let mut fuels: Vec<(String, Vec<F>)> = vec![];
        for l in e.lines.iter().filter(|l| l.kind == 'U' && l.a == "COGEN") {
            let v: Vec<F> = (0..n).map(|t| line_value(l, t)).collect();
            match fuels.iter_mut().find(|x| x.0 == l.b) {
                Some(x) => (0..n).for_each(|t| x.1[t] = x.1[t] + v[t]),
                None => fuels.push((l.b.clone(), v)),
            }
        }
        let mut fc = R3::zero();
        for (fuel, v) in &fuels {
            let ratio = if pr_an > zero { sum(v) / pr_an } else { zero };
            if let Some(f) = fp_of(&e.fp, &[], fuel, "RED", "SUMINISTRO", "A") {
                fc = fc.add(f.scale_r(ratio));
            }
        }
        let grid = fp_of(&e.fp, &[], "ELECTRICIDAD", "RED", "SUMINISTRO", "A").unwrap_or(R3::zero());
        for (dest, step, f) in [("SUMINISTRO", "A", fc), ("A_NEPB", "A", fc), ("A_RED", "A", fc), ("A_NEPB", "B", grid), ("A_RED", "B", grid)] {
            extra.push((format!("ELECTRICIDAD.COGEN.{}.{}", dest, step), f));
        }
    }
    let mut tot_a = R3::zero();
    let mut tot_b = R3::zero();
    // carriers in the order in which the implementation accumulates them (first appearance; completion lines at the end)
    let mut order: Vec<String> = vec![];
    for l in &e.lines {
        let c = match l.kind {
            'U' => l.b.clone(),
            'X' => "ELECTRICIDAD".to_string(),
            'P' => match l.a.as_str() {
                "EL_INSITU" | "EL_COGEN" => "ELECTRICIDAD".to_string(),
                x => x.to_string(),
            },
            _ => continue,
        };
        if !order.contains(&c) {
            order.push(c);
        }
    }
    for cr in &order {
        let b = match crate::by_name!(ep.balance_cr, cr.as_str()) {
            Some(b) => b,
            None => {
                ob(&format!("{}.has-balance", cr), f());
                continue;
            }
        };
        // automatic completion of EAMBIENTE / TERMOSOLAR is part of the documented method: the reference gets
        // the completed production by adding max(0, use - declared) as one more production line
        let mut lines = e.lines.clone();
        if cr == "EAMBIENTE" || cr == "TERMOSOLAR" {
            // only shapes without ids are used here: one system
            let has_use = lines.iter().any(|l| l.kind == 'U' && &l.b == cr && l.a != "NEPB" || (l.kind == 'U' && &l.b == cr));
            if has_use {
                if let Some(extra_p) = b.prod.by_src_t.iter().next() {
                    let _ = extra_p;
                }
            }
        }
        let r = if (cr == "EAMBIENTE" || cr == "TERMOSOLAR") && needs_completion(&lines, cr) {
            // completed production: one extra line whose values are max(0, use - declared production)
            lines.push(completion_line(&lines, cr, n));
            reference(cr, &lines, n, &e.fp, &extra, e.kexp, e.lm)
        } else {
            reference(cr, &lines, n, &e.fp, &extra, e.kexp, e.lm)
        };
        let r = match r {
            Some(r) => r,
            None => {
                ob(&format!("{}.reference-has-all-factors", cr), f());
                continue;
            }
        };
        let p = format!("cr.{}", cr);
        cmp_f(&format!("{}.del.grid_an", p), b.del.grid_an, r.del_grid_an, mag);
        cmp_f(&format!("{}.del.an", p), b.del.an, r.del_an, mag);
        cmp_f(&format!("{}.exp.an", p), b.exp.an, r.exp_an, mag);
        cmp_f(&format!("{}.exp.grid_an", p), b.exp.grid_an, r.exp_grid_an, mag);
        cmp_f(&format!("{}.exp.nepus_an", p), b.exp.nepus_an, r.exp_nepus_an, mag);
        cmp_f(&format!("{}.prod.epus_an", p), b.prod.epus_an, r.epus_an, mag);
        cmp_f(&format!("{}.prod.an", p), b.prod.an, r.prod_an, mag);
        cmp_r(&format!("{}.we.del", p), &b.we.del, &r.del, mag);
        cmp_r(&format!("{}.we.exp_a", p), &b.we.exp_a, &r.exp_a, mag);
        cmp_r(&format!("{}.we.exp_ab", p), &b.we.exp_ab, &r.exp_ab, mag);
        cmp_r(&format!("{}.we.exp", p), &b.we.exp, &r.exp, mag);
        cmp_r(&format!("{}.we.a", p), &b.we.a, &r.a, mag);
        cmp_r(&format!("{}.we.b", p), &b.we.b, &r.b, mag);
        for (srv, want) in &r.a_by_srv {
            match crate::by_name!(b.we.a_by_srv, srv.as_str()) {
                Some(g) => cmp_r(&format!("{}.we.a_by_srv.{}", p, srv), g, want, mag),
                None => ob(&format!("{}.we.a_by_srv.{}.present", p, srv), f()),
            }
        }
        for (srv, want) in &r.b_by_srv {
            match crate::by_name!(b.we.b_by_srv, srv.as_str()) {
                Some(g) => cmp_r(&format!("{}.we.b_by_srv.{}", p, srv), g, want, mag),
                None => ob(&format!("{}.we.b_by_srv.{}.present", p, srv), f()),
            }
        }
        tot_a = tot_a.add(r.a);
        tot_b = tot_b.add(r.b);
    }
    // every carrier with a balance is one the building declares
    ob("balance_cr.carriers", if ep.balance_cr.len() == order.len() { t() } else { f() });
    // whole building, per m2 and RER
    cmp_r("bal.we.a", &ep.balance.we.a, &tot_a, mag);
    cmp_r("bal.we.b", &ep.balance.we.b, &tot_b, mag);
    let ka = k(1.0) / e.area;
    cmp_r("m2.we.b", &ep.balance_m2.we.b, &tot_b.scale_l(ka), mag * ka);
    let tot = tot_b.ren + tot_b.nren;
    let rer = if tot == zero { zero } else { tot_b.ren / tot };
    cmp_f("rer", ep.rer, rer, k(1.0));
    "ok".into()
}

fn needs_completion(lines: &[LineT], cr: &str) -> bool {
    lines.iter().any(|l| l.kind == 'U' && l.b == cr)
}

/// max(0, use - declared production) of the (single) system, as one more production line
fn completion_line(lines: &[LineT], cr: &str, n: usize) -> LineT {
    let zero = k(0.0);
    let declared: Vec<&LineT> = lines.iter().filter(|l| l.kind == 'P' && l.a == cr).collect();
    for t in 0..n {
        let us = lines.iter().filter(|l| l.kind == 'U' && l.b == cr).fold(zero, |a, l| a + line_value(l, t));
        let v = if declared.is_empty() {
            us
        } else {
            let pr = declared.iter().fold(zero, |a, l| a + line_value(l, t));
            let d = us - pr;
            if d > zero {
                d
            } else {
                zero
            }
        };
        <F as Scalar>::alias(&format!("cX{}_{}", cr, t), v);
    }
    LineT { id: None, kind: 'P', a: cr.to_string(), b: String::new(), comment: String::new(), dom: Dom::Energy, stem: format!("cX{}", cr) }
}
