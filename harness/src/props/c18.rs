//! C18 — components and factors survive being written out and read back.
//! The decimal rendering of a number is abstracted: a symbolic value prints as a token that denotes it,
//! so what is decided is that every value is printed in a slot the parser maps back to the same value
//! (a change of printed precision is not detected here).

use crate::common::*;
use cteepbd::types::*;
use cteepbd::*;

pub fn units(tier: &str, _seed: u64) -> Vec<String> {
    let shapes: &[&str] = &[
        // legacy lines without id, comments, every kind of line
        "U:CAL:ELECTRICIDAD#calefacción eléctrica;P:EL_INSITU#PV",
        "1/U:CAL:GASNATURAL;1/U:ACS:GASNATURAL;1/X#aux;1/~O:CAL;1/~O:ACS;D:ACS;D:CAL",
        "2/U:REF:ELECTRICIDAD;2/X;2/O:REF;D:REF",
        "U:ACS:ELECTRICIDAD;P:EL_COGEN;U:COGEN:GASNATURAL;U:NEPB:ELECTRICIDAD",
        // automatically completed components (no declared production / partial declared production)
        "1/U:ACS:EAMBIENTE;1/U:ACS:ELECTRICIDAD",
        "1/U:ACS:EAMBIENTE;1/P:EAMBIENTE",
        "-3/U:ACS:TERMOSOLAR;-3/U:ACS:GASNATURAL",
        "2/U:CAL:GASNATURAL#caldera, rend. 0.9 {HASH} dato de fabricante;2/O:CAL#salida {HASH} medida;2/X#aux {HASH} bomba;P:EL_INSITU#PV {HASH} cubierta",
        // a building without electricity
        "U:CAL:GASNATURAL;U:ACS:BIOMASA;D:ACS",
    ];
    let mut v = vec![];
    for s in shapes {
        v.push(unit(&[("shape", s), ("n", "1"), ("fs", "PEN")]));
    }
    v.push(unit(&[("shape", shapes[0]), ("n", "2"), ("fs", "SYM")]));
    if tier == "thorough" {
        for s in shapes {
            v.push(unit(&[("shape", s), ("n", "2"), ("fs", "SYM"), ("ord", "rev")]));
        }
    }
    v
}

fn tags(c: &Energy) -> String {
    match c {
        Energy::Used(e) => format!("U:{}:{:?}:{:?}:{}", e.id, e.service, e.carrier, e.comment),
        Energy::Prod(e) => format!("P:{}:{:?}:{}", e.id, e.source, e.comment),
        Energy::Aux(e) => format!("X:{}:{:?}:{}", e.id, e.service, e.comment),
        Energy::Out(e) => format!("O:{}:{:?}:{}", e.id, e.service, e.comment),
    }
}

pub fn scenario(u: &Unit) -> String {
    let lines = parse_shape(u.get("shape"));
    let n = u.n();
    let text = format!("#META CTE_AREAREF: 123.5\n#META Nombre: edificio <1> & \"2\"\n#META Fecha: 2024-01-31T10:20:30\n{}", shape_text(&lines, n));
    spec(false);
    let mut comps = match text.parse::<Components>() {
        Ok(c) => c,
        Err(e) => return err_kind(&e).to_string(),
    };
    // the declared metadata values are what is read (values may contain the key delimiter) ...
    ob("meta.declared.Fecha", if comps.get_meta("Fecha").as_deref() == Some("2024-01-31T10:20:30") { t() } else { f() });
    ob("meta.declared.Nombre", if comps.get_meta("Nombre").as_deref() == Some("edificio <1> & \"2\"") { t() } else { f() });
    // ... and so is metadata attached through the API before writing
    comps.set_meta("Nota", "fuente: http://example.org/a?b=1, rev: 2");
    let written = comps.to_string();
    let back = written.parse::<Components>();
    spec(true);
    let c2 = match back {
        Ok(c) => c,
        Err(e) => {
            ob("written-components-parse", f());
            return format!("reparse-{}", err_kind(&e));
        }
    };
    // metadata
    ob("meta.len", if comps.meta.len() == c2.meta.len() { t() } else { f() });
    for (a, b) in comps.meta.iter().zip(c2.meta.iter()) {
        ob(&format!("meta.{}", a.key), if a.key == b.key && a.value == b.value { t() } else { f() });
    }
    // the comments that were declared are the comments that are read back (not merely a fixed point of read-write-read)
    // (auxiliary lines of multi-service systems are regenerated with a comment of their own)
    for l in lines.iter().filter(|l| !l.comment.is_empty() && l.kind != 'D' && l.kind != 'X') {
        let want = l.comment.replace("{HASH}", "#");
        ob(&format!("declared-comment-survives:{}", want), if c2.data.iter().any(|c| c.comment() == want) { t() } else { f() });
    }
    // components: same tags, ids, comments and values, in the same order
    ob("data.len", if comps.data.len() == c2.data.len() { t() } else { f() });
    for (i, (a, b)) in comps.data.iter().zip(c2.data.iter()).enumerate() {
        let same = tags(a) == tags(b) && a.values().len() == b.values().len();
        ob(&format!("data[{}].tags", i), if same { t() } else { f() });
        if same {
            for (tt, (x, y)) in a.values().iter().zip(b.values().iter()).enumerate() {
                // the same term on the unchanged tree (the printed token denotes the value); regenerated components
                // (auxiliary shares are re-split on reading) agree within rounding
                ob_via(&format!("data[{}][{}]", i, tt), "same-term", x.ident(*y), if <F as Scalar>::LIFTED { y.approx(*x, 64.0, *x) } else { y.close_dec(*x, 2, 1.0) });
            }
        }
    }
    // demands
    for (nm, a, b) in [("ACS", &comps.needs.ACS, &c2.needs.ACS), ("CAL", &comps.needs.CAL, &c2.needs.CAL), ("REF", &comps.needs.REF, &c2.needs.REF)] {
        match (a, b) {
            (None, None) => {}
            (Some(x), Some(y)) if x.len() == y.len() => {
                for (tt, (p, q)) in x.iter().zip(y.iter()).enumerate() {
                    ob(&format!("needs.{}[{}]", nm, tt), q.close_dec(*p, 2, 1.0));
                }
            }
            _ => ob(&format!("needs.{}.kept", nm), f()),
        }
    }
    // factors
    let mut fp = match factors(u.get_or("fs", "PEN"), &carriers_of(&lines)) {
        Ok(x) => x,
        Err(e) => return err_kind(&e).to_string(),
    };
    fp.set_meta("Fuente", "RITE 2014: tabla 3, rev: 20/07/2014");
    spec(false);
    let fback = fp.to_string().parse::<Factors>();
    spec(true);
    let f2 = match fback {
        Ok(x) => x,
        Err(_) => {
            ob("written-factors-parse", f());
            return "reparse-factors".into();
        }
    };
    ob("wmeta.len", if fp.wmeta.len() == f2.wmeta.len() && fp.wmeta.iter().zip(f2.wmeta.iter()).all(|(a, b)| a.key == b.key && a.value == b.value) { t() } else { f() });
    ob("wdata.len", if fp.wdata.len() == f2.wdata.len() { t() } else { f() });
    for (i, (a, b)) in fp.wdata.iter().zip(f2.wdata.iter()).enumerate() {
        let same = a.carrier == b.carrier && a.source == b.source && a.dest == b.dest && a.step == b.step && a.comment == b.comment;
        ob(&format!("wdata[{}]", i), if same { b.ren.close_dec(a.ren, 3, 1.0).and(b.nren.close_dec(a.nren, 3, 1.0)).and(b.co2.close_dec(a.co2, 3, 1.0)) } else { f() });
    }
    // consequently the evaluation from the saved files gives the same results
    let kexp = input("kexp", Dom::Range(0.0, 1.0));
    spec(false);
    let (e1, e2) = (energy_performance(&comps, &fp, kexp, k(10.0), false), energy_performance(&c2, &f2, kexp, k(10.0), false));
    spec(true);
    match (e1, e2) {
        (Ok(a), Ok(b)) => {
            let (la, lb) = (leaves(&a), leaves(&b));
            if la.len() != lb.len() || la.iter().zip(lb.iter()).any(|(x, y)| x.0 != y.0) {
                ob("results.same-structure", f());
            } else {
                // natively every re-read input is off by up to half a printed unit: a loose bound on the
                // propagated difference (ratios are left to the symbolic identity)
                let slack = 40.0 * (lines.len() * n) as f32;
                let _ = slack;
                for ((nm, x), (_, y)) in la.iter().zip(lb.iter()) {
                    // decided symbolically (same term); the native build, which really rounds to two decimals,
                    // cannot judge "the same up to that precision" for derived results and does not try
                    ob_via(&format!("results{}", nm), "same-term", x.ident(*y), if <F as Scalar>::LIFTED { y.approx(*x, 64.0, *x) } else { t() });
                }
            }
        }
        (Err(_), Err(_)) => {}
        _ => ob("results.same-outcome", f()),
    }
    // what --of followed by -f does: the simplified factor set is written, and read back through the preparation of
    // user factor files; the building evaluated with it gives the results of the original evaluation
    spec(false);
    let slim_text = fp.clone().strip(&comps).to_string();
    let f3 = cte::wfactors_from_str(&slim_text, no_user(), cte::CTE_USERWF);
    let e1 = energy_performance(&comps, &fp, kexp, k(10.0), false);
    spec(true);
    match (e1, f3) {
        (Ok(a), Ok(f3)) => {
            spec(false);
            let e3 = energy_performance(&c2, &f3, kexp, k(10.0), false);
            spec(true);
            match e3 {
                Ok(b) => {
                    let (la, lb) = (leaves(&a), leaves(&b));
                    if la.len() != lb.len() || la.iter().zip(lb.iter()).any(|(x, y)| x.0 != y.0) {
                        ob("saved.same-structure", f());
                    } else {
                        for ((nm, x), (_, y)) in la.iter().zip(lb.iter()) {
                            ob_via(&format!("saved{}", nm), "same-term", x.ident(*y), if <F as Scalar>::LIFTED { y.approx(*x, 64.0, *x) } else { t() });
                        }
                    }
                }
                Err(_) => ob("saved-files-evaluate", f()),
            }
        }
        (Ok(_), Err(_)) => ob("saved-factors-are-usable", f()),
        _ => {}
    }
    "ok".into()
}
