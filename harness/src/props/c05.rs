//! C05 — parsing keeps declared data and completes ambient / solar production exactly.

use crate::common::*;
use cteepbd::types::*;
use cteepbd::*;

pub fn units(tier: &str, _seed: u64) -> Vec<String> {
    let shapes: &[&str] = &[
        // one system, no declared production / partial or surplus declared production
        "1/U:ACS:EAMBIENTE;1/U:ACS:ELECTRICIDAD",
        "1/U:ACS:EAMBIENTE;1/P:EAMBIENTE",
        // two systems, production declared for one of them only (must not offset the other)
        "1/U:ACS:EAMBIENTE;2/U:CAL:EAMBIENTE;1/P:EAMBIENTE",
        // production declared for a system without use, and legacy lines without id
        "U:CAL:EAMBIENTE;3/P:EAMBIENTE",
        // production declared for system 0 (explicit / omitted id), use in another system without own production
        "0/P:EAMBIENTE;3/U:CAL:EAMBIENTE",
        "P:TERMOSOLAR;-1/U:ACS:TERMOSOLAR",
        // two uses of one system, two production lines of the same system
        "2/U:CAL:EAMBIENTE;2/U:ACS:EAMBIENTE;2/P:EAMBIENTE;2/P:EAMBIENTE",
        // solar thermal next to ambient heat, negative id
        "-1/U:ACS:TERMOSOLAR;-1/P:TERMOSOLAR;-1/U:ACS:EAMBIENTE",
        // other kinds are kept untouched (output, demand, electricity production, non-EPB use)
        "1/U:CAL:GASNATURAL;1/O:CAL;D:CAL;D:CAL;P:EL_INSITU;U:NEPB:ELECTRICIDAD;1/U:CAL:TERMOSOLAR#con comentario",
        // a reversible system with auxiliaries: heating (+) and cooling (-) outputs are kept as declared
        "1/U:CAL:ELECTRICIDAD;1/U:REF:ELECTRICIDAD;1/X;1/O:CAL;1/O:REF",
        // an electricity use tagged as auxiliary in its comment, in a multi-service system with AUX lines
        "1/U:ACS:ELECTRICIDAD#CTEEPBD_AUX bomba de ACS;1/U:CAL:ELECTRICIDAD#CTEEPBD_EXCLUYE_AUX_ACS;1/X;1/~O:CAL;1/~O:ACS",
        // comments that contain the comment delimiter, on every kind of line
        "2/U:CAL:GASNATURAL#caldera, rend. 0.9 {HASH} dato de fabricante;2/O:CAL#salida {HASH} medida;2/X#aux {HASH} bomba;P:EL_INSITU#PV {HASH} cubierta",
    ];
    let mut v = vec![];
    for s in shapes {
        v.push(unit(&[("shape", s), ("n", "1")]));
    }
    v.push(unit(&[("shape", shapes[1]), ("n", "2")]));
    v.push(unit(&[("shape", shapes[2]), ("n", "2")]));
    if tier == "thorough" {
        for s in shapes {
            v.push(unit(&[("shape", s), ("n", "2"), ("ord", "rev")]));
            v.push(unit(&[("shape", s), ("n", "1"), ("ord", "hash:1")]));
        }
        v.push(unit(&[("shape", "1/U:ACS:EAMBIENTE;2/U:CAL:EAMBIENTE;1/P:EAMBIENTE;2/P:EAMBIENTE;0/P:EAMBIENTE;1/U:REF:EAMBIENTE"), ("n", "1")]));
        v.push(unit(&[("shape", shapes[1]), ("n", "3")]));
    }
    v
}

fn tags(c: &Energy) -> String {
    match c {
        Energy::Used(e) => format!("U:{}:{:?}:{:?}:{}", e.id, e.service, e.carrier, e.comment),
        Energy::Prod(e) => format!("P:{}:{:?}:{}", e.id, e.source, e.comment),
        Energy::Aux(e) => format!("X:{}:{}", e.id, e.comment),
        Energy::Out(e) => format!("O:{}:{:?}:{}", e.id, e.service, e.comment),
    }
}

fn line_tags(l: &LineT) -> String {
    let id = l.id.unwrap_or(0);
    match l.kind {
        'U' => format!("U:{}:{}:{}:{}", id, l.a, l.b, l.comment.replace("{HASH}", "#")),
        'P' => format!("P:{}:{}:{}", id, l.a, l.comment.replace("{HASH}", "#")),
        'X' => format!("X:{}:{}", id, l.comment.replace("{HASH}", "#")),
        'O' => format!("O:{}:{}:{}", id, l.a, l.comment.replace("{HASH}", "#")),
        _ => String::new(),
    }
}

const AUTO: &str = "Equilibrado de consumo sin producción declarada";

pub fn scenario(u: &Unit) -> String {
    let lines = parse_shape(u.get("shape"));
    let n = u.n();
    let text = shape_text(&lines, n);
    spec(false);
    let parsed = text.parse::<Components>();
    spec(true);
    let comps = match parsed {
        Ok(c) => c,
        Err(e) => return err_kind(&e).to_string(),
    };
    for (i, c) in comps.data.iter().enumerate() {
        rec_v(&format!("data[{}:{}]", i, tags(c)), c.values());
    }
    // (1) every declared consumption / production / output line is present with the same tags, id,
    //     comment and values (multiset matching: declared lines with equal tags are matched in order)
    let mut taken = vec![false; comps.data.len()];
    for l in lines.iter().filter(|l| matches!(l.kind, 'U' | 'P' | 'O')) {
        let want = line_tags(l);
        let mut found = false;
        for (i, c) in comps.data.iter().enumerate() {
            if taken[i] || tags(c) != want {
                continue;
            }
            let same = (0..n).all(|t| c.values().get(t).map(|v| v.same(line_value(l, t))).unwrap_or(false)) && c.values().len() == n;
            if same {
                taken[i] = true;
                found = true;
                break;
            }
        }
        ob(&format!("declared-line-kept:{}", want), if found { t() } else { f() });
    }
    // demands: the values of all DEMANDA lines of a service, added up in file order
    for srv in ["ACS", "CAL", "REF"] {
        let decl: Vec<&LineT> = lines.iter().filter(|l| l.kind == 'D' && l.a == srv).collect();
        let got = match srv {
            "ACS" => &comps.needs.ACS,
            "CAL" => &comps.needs.CAL,
            _ => &comps.needs.REF,
        };
        match (decl.is_empty(), got) {
            (true, None) => {}
            (false, Some(v)) => {
                for tt in 0..n {
                    let mut s = line_value(decl[0], tt);
                    for l in &decl[1..] {
                        s = s + line_value(l, tt);
                    }
                    ob(&format!("demand.{}[{}]", srv, tt), if v.len() == n { v[tt].ident(s) } else { f() });
                }
            }
            _ => ob(&format!("demand.{}.present-iff-declared", srv), f()),
        }
    }
    // (2),(3) completion per carrier, system and step; nothing else is added or removed
    let mut expected_len = lines.iter().filter(|l| matches!(l.kind, 'U' | 'P' | 'O')).count();
    for (carrier, source) in [("EAMBIENTE", "EAMBIENTE"), ("TERMOSOLAR", "TERMOSOLAR")] {
        let mut ids: Vec<i32> = lines.iter().filter(|l| (l.kind == 'U' && l.b == carrier) || (l.kind == 'P' && l.a == source)).map(|l| l.id.unwrap_or(0)).collect();
        ids.sort();
        ids.dedup();
        for id in ids {
            let uses: Vec<&LineT> = lines.iter().filter(|l| l.kind == 'U' && l.b == carrier && l.id.unwrap_or(0) == id).collect();
            let prods: Vec<&LineT> = lines.iter().filter(|l| l.kind == 'P' && l.a == source && l.id.unwrap_or(0) == id).collect();
            // automatically added production components of this system: those not matched to a declared line
            let added: Vec<&Energy> = comps
                .data
                .iter()
                .enumerate()
                .filter(|(i, c)| !taken[*i] && matches!(c, Energy::Prod(e) if e.id == id && format!("{:?}", e.source) == source))
                .map(|(_, c)| c)
                .collect();
            expected_len += added.len();
            ob(&format!("{}.id{}.at-most-one-added", carrier, id), if added.len() <= 1 { t() } else { f() });
            if uses.is_empty() {
                ob(&format!("{}.id{}.no-use=>nothing-added", carrier, id), if added.is_empty() { t() } else { f() });
                continue;
            }
            for c in &added {
                ob(&format!("{}.id{}.added-is-marked", carrier, id), if c.comment() == AUTO && c.values().len() == n { t() } else { f() });
            }
            for tt in 0..n {
                // sums folded as veclistsum does: from +0.0, in declaration order
                let us = uses.iter().fold(k(0.0), |a, l| a + line_value(l, tt));
                let need = if prods.is_empty() {
                    us
                } else {
                    let pr = prods.iter().fold(k(0.0), |a, l| a + line_value(l, tt));
                    k(0.0).max_(us - pr)
                };
                let got = added.iter().fold(None::<F>, |a, c| {
                    let v = c.values().get(tt).copied().unwrap_or(k(0.0));
                    Some(a.map(|x| x + v).unwrap_or(v))
                });
                match got {
                    Some(g) => {
                        ob(&format!("{}.id{}.added[{}]=max(0,use-prod)", carrier, id, tt), g.ident(need));
                        if !prods.is_empty() {
                            // declared + added production covers the use (within two roundings), or there is a surplus
                            let pr = prods.iter().fold(k(0.0), |a, l| a + line_value(l, tt));
                            let prem = us.le_(pr).or(g.ident(us - pr).and(k(0.0).le_(pr)).and(pr.le_(us)).and(us.le_(k(1.0e30))));
                            ob_via(&format!("{}.id{}.covered[{}]", carrier, id, tt), "split", prem, us.le_(pr).or((pr + g).approx(us, 2.0, us)));
                        }
                    }
                    None => ob(&format!("{}.id{}.nothing-added=>covered[{}]", carrier, id, tt), need.ident(k(0.0))),
                }
            }
            // a component is added only if some step is uncovered
            if let Some(c) = added.first() {
                let any = c.values().iter().fold(f(), |a, v| a.or(k(0.0).lt_(*v)));
                ob(&format!("{}.id{}.added=>some-step-uncovered", carrier, id), any);
            }
        }
    }
    let non_aux = comps.data.iter().filter(|c| !c.is_aux()).count();
    ob("nothing-else-added-or-removed", if non_aux == expected_len { t() } else { f() });
    // (4) normalizing an already normalized set changes nothing
    spec(false);
    let again = comps.clone().normalize();
    spec(true);
    match again {
        Ok(c2) => {
            ob("idempotent.len", if c2.data.len() == comps.data.len() { t() } else { f() });
            for (i, (a, b)) in comps.data.iter().zip(c2.data.iter()).enumerate() {
                let same_tags = tags(a) == tags(b) && a.values().len() == b.values().len();
                ob(&format!("idempotent.tags[{}]", i), if same_tags { t() } else { f() });
                if same_tags {
                    for (tt, (x, y)) in a.values().iter().zip(b.values().iter()).enumerate() {
                        ob(&format!("idempotent.value[{}][{}]", i, tt), x.ident(*y));
                    }
                }
            }
        }
        Err(_) => ob("idempotent.ok", f()),
    }
    // declared surplus is kept and reappears as exported energy
    let fp = match factors("PEN", &carriers_of(&lines)) {
        Ok(x) => x,
        Err(e) => return err_kind(&e).to_string(),
    };
    spec(false);
    let ep = energy_performance(&comps, &fp, k(0.0), k(1.0), false);
    spec(true);
    if let Ok(ep) = ep {
        for carrier in ["EAMBIENTE", "TERMOSOLAR"] {
            if let Some(b) = crate::by_name!(ep.balance_cr, carrier) {
                for tt in 0..n {
                    ob(&format!("{}.exp>=0[{}]", carrier, tt), k(0.0).le_(b.exp.t[tt]));
                }
            }
        }
    }
    "ok".into()
}
