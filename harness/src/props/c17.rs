//! C17 — every output format is well formed and reports the computed result.
//! Numbers are abstracted as tokens that denote their value (decimal rendering is outside the claim):
//! what is decided is *which* value each slot of each rendering carries.

use crate::common::*;
use cteepbd::types::*;
use cteepbd::*;

pub fn units(tier: &str, _seed: u64) -> Vec<String> {
    let shapes: &[&str] = &[
        "U:CAL:ELECTRICIDAD#<calef> & \"elec\" 'x' \\ ñ;P:EL_INSITU#PV > 1",
        "1/U:ACS:ELECTRICIDAD;1/U:ACS:EAMBIENTE;U:CAL:GASNATURAL;D:ACS;D:CAL",
        "2/U:REF:ELECTRICIDAD;2/X;2/O:REF;D:REF;U:NEPB:ELECTRICIDAD;P:EL_INSITU",
        "U:ACS:ELECTRICIDAD;P:EL_COGEN;U:COGEN:GASNATURAL",
    ];
    let mut v = vec![];
    for s in shapes {
        v.push(unit(&[("shape", s), ("n", "1"), ("fs", "PEN"), ("k", "sym"), ("a", "sym")]));
    }
    v.push(unit(&[("shape", shapes[1]), ("n", "2"), ("fs", "PEN"), ("k", "sym"), ("a", "sym"), ("ord", "rev")]));
    // both electricity sources (two rows in the by-source tables), under two iteration orders of the maps
    for ord in ["ins", "rev"] {
        v.push(unit(&[("shape", "U:CAL:ELECTRICIDAD;P:EL_INSITU;P:EL_COGEN;U:COGEN:GASNATURAL;U:ACS:GASNATURAL"), ("n", "1"), ("fs", "PEN"), ("k", "0"), ("a", "1"), ("ord", ord)]));
    }
    // a very large and a very small building (GWh and fractions of a Wh): every rendering still states the result
    v.push(unit(&[("shape", shapes[1]), ("n", "1"), ("fs", "PEN"), ("k", "0"), ("a", "1"), ("dom", "900000:1000000")]));
    v.push(unit(&[("shape", shapes[1]), ("n", "1"), ("fs", "PEN"), ("k", "0"), ("a", "sym"), ("dom", "0.00001:0.01")]));
    // free text (comments, metadata keys and values, factor comments): a catalogue of strings built from the
    // characters that matter to XML, each alone, doubled, at either end, in both orders, already-escaped
    // look-alikes, non-ASCII, control characters; strings are *shape* (enumerated), not solver variables
    for i in 0..TEXTS.len() {
        v.push(unit(&[("shape", "U:CAL:GASNATURAL;P:EL_INSITU;U:ILU:ELECTRICIDAD"), ("n", "1"), ("fs", "PEN"), ("k", "0"), ("a", "1"), ("txt", &i.to_string())]));
    }
    if tier == "thorough" {
        for s in shapes {
            v.push(unit(&[("shape", s), ("n", "2"), ("fs", "SYM"), ("k", "sym"), ("a", "sym"), ("ord", "hash:4")]));
        }
    }
    v
}

/// Free-text catalogue of the `txt=` units.
pub const TEXTS: &[&str] = &[
    "&", "<", ">", "\"", "'", "\\", "&&", "<<", "a & b", "&a", "a&", "x<y", "y>x", "<&>", ">&<", "&<", "<&", "&lt;", "&amp;", "&#38;",
    "]]>", "-->", "<!--", "<![CDATA[x]]>", "</Comentario>", "\"q\" & 'r'", "\\&", "&\\", "\"&", "é&ñ <€>", "a\tb", "a\u{1}b", "\u{0}", "\u{1b}[0m",
    "a\u{7f}b", "\u{fffe}", "\u{ffff}&", "plain text",
];

/// XML 1.0 `Char` production
fn xml_char(c: char) -> bool {
    matches!(c, '\t' | '\n' | '\r' | '\u{20}'..='\u{D7FF}' | '\u{E000}'..='\u{FFFD}' | '\u{10000}'..='\u{10FFFF}')
}

fn xml_unescape(s: &str) -> String {
    s.replace("&lt;", "<").replace("&gt;", ">").replace("&quot;", "\"").replace("&apos;", "'").replace("&amp;", "&")
}

/// numbers after `key` in `line`, in order (tokens are placeholders or decimals)
fn nums(s: &str) -> Vec<F> {
    s.split(|c: char| c == ' ' || c == ',' || c == ':' || c == '=' || c == '[' || c == ']')
        .filter_map(|tok| {
            let tok = tok.trim();
            if tok.is_empty() {
                return None;
            }
            let first = tok.chars().next().unwrap();
            if first == '?' || first.is_ascii_digit() || first == '-' && tok.len() > 1 {
                tok.parse::<F>().ok()
            } else {
                None
            }
        })
        .collect()
}

fn line_with<'a>(text: &'a str, prefix: &str) -> Option<&'a str> {
    text.lines().find(|l| l.starts_with(prefix))
}

/// Strict well-formedness of the generated XML subset: balanced element names, no attributes expected,
/// every `&` starts one of the five predefined entities, no raw `<` in text.
pub fn xml_well_formed(x: &str) -> std::result::Result<(), String> {
    let b: Vec<char> = x.chars().collect();
    if let Some(c) = b.iter().find(|c| !xml_char(**c)) {
        return Err(format!("character U+{:04X} is not allowed in XML 1.0", *c as u32));
    }
    let mut stack: Vec<String> = vec![];
    let mut i = 0;
    while i < b.len() {
        match b[i] {
            '<' => {
                if b[i..].starts_with(&['<', '!', '-', '-']) {
                    // comment
                    let mut j = i + 4;
                    while j + 2 < b.len() && !(b[j] == '-' && b[j + 1] == '-' && b[j + 2] == '>') {
                        j += 1;
                    }
                    if j + 2 >= b.len() {
                        return Err("unterminated comment".into());
                    }
                    i = j + 3;
                    continue;
                }
                let close = b.get(i + 1) == Some(&'/');
                let start = if close { i + 2 } else { i + 1 };
                let mut j = start;
                while j < b.len() && b[j] != '>' {
                    if b[j] == '<' {
                        return Err(format!("'<' inside a tag at {}", j));
                    }
                    j += 1;
                }
                if j >= b.len() {
                    return Err("unterminated tag".into());
                }
                let name: String = b[start..j].iter().collect();
                if name.is_empty() || !name.chars().all(|c| c.is_alphanumeric() || c == '_') {
                    return Err(format!("bad tag name '{}'", name));
                }
                if close {
                    match stack.pop() {
                        Some(top) if top == name => {}
                        Some(top) => return Err(format!("</{}> closes <{}>", name, top)),
                        None => return Err(format!("</{}> without opening tag", name)),
                    }
                } else {
                    stack.push(name);
                }
                i = j + 1;
            }
            '&' => {
                let rest: String = b[i..b.len().min(i + 7)].iter().collect();
                if !["&amp;", "&lt;", "&gt;", "&apos;", "&quot;"].iter().any(|e| rest.starts_with(e)) {
                    return Err(format!("raw '&' at {}", i));
                }
                i += 1;
            }
            '>' if i >= 2 && b[i - 1] == ']' && b[i - 2] == ']' => return Err(format!("']]>' in text at {}", i)),
            _ => i += 1,
        }
    }
    if let Some(top) = stack.pop() {
        return Err(format!("<{}> is never closed", top));
    }
    Ok(())
}

fn between<'a>(x: &'a str, open: &str, close: &str) -> Vec<&'a str> {
    let mut v = vec![];
    let mut rest = x;
    while let Some(i) = rest.find(open) {
        let after = &rest[i + open.len()..];
        match after.find(close) {
            Some(j) => {
                v.push(&after[..j]);
                rest = &after[j + close.len()..];
            }
            None => break,
        }
    }
    v
}

fn set_comment(c: &mut Energy, text: &str) {
    match c {
        Energy::Used(e) => e.comment = text.to_string(),
        Energy::Prod(e) => e.comment = text.to_string(),
        Energy::Aux(e) => e.comment = text.to_string(),
        Energy::Out(e) => e.comment = text.to_string(),
    }
}

pub fn scenario(u: &Unit) -> String {
    let mut e = match prepare(u) {
        Ok(e) => e,
        Err(s) => return s,
    };
    // free text through the API (the text format cannot carry every string: line breaks, '#' in keys)
    let text: Option<&str> = u.get("txt").parse::<usize>().ok().map(|i| TEXTS[i]);
    if let Some(t) = text {
        for c in e.comps.data.iter_mut().take(2) {
            set_comment(c, t);
        }
        e.comps.set_meta("Descripcion", t);
        e.comps.set_meta(t, "valor");
        e.fp.set_meta("Fuente", t);
        if let Some(w) = e.fp.wdata.first_mut() {
            w.comment = t.to_string();
        }
    }
    let ep = match evaluate(&e) {
        Ok(x) => x,
        Err(s) => return s,
    };
    spec(false);
    let ep = cte::incorpora_demanda_renovable_acs_nrb(ep);
    let plain = ep.to_plain();
    let xml = ep.to_xml();
    let json = serde_json::to_string(&ep);
    spec(true);
    rec_ep("ep", &ep);
    let m2 = &ep.balance_m2;
    let slot = |name: &str, got: Option<F>, want: F, dec: i32| match got {
        Some(g) => ob(&format!("plain.{}", name), g.close_dec(want, dec, 1.0)),
        None => ob(&format!("plain.{}.present", name), f()),
    };
    // ---------------- plain text report
    let cep = line_with(&plain, "C_ep [kWh/m2.an]").map(nums).unwrap_or_default();
    slot("C_ep.ren", cep.first().copied(), m2.we.b.ren, 1);
    slot("C_ep.nren", cep.get(1).copied(), m2.we.b.nren, 1);
    slot("C_ep.tot", cep.get(2).copied(), m2.we.b.ren + m2.we.b.nren, 1);
    slot("E_CO2", line_with(&plain, "E_CO2").map(nums).and_then(|v| v.last().copied()), m2.we.b.co2, 2);
    slot("RER", line_with(&plain, "RER =").map(nums).and_then(|v| v.last().copied()), ep.rer, 2);
    slot("RER_nrb", line_with(&plain, "RER_nrb =").map(nums).and_then(|v| v.last().copied()), ep.rer_nrb, 2);
    slot("k_exp", line_with(&plain, "k_exp =").map(nums).and_then(|v| v.last().copied()), ep.k_exp, 2);
    slot("Area_ref", line_with(&plain, "Area_ref =").map(nums).and_then(|v| v.first().copied()), ep.arearef, 2);
    slot("epus", line_with(&plain, "+ Consumida en usos EPB:").map(nums).and_then(|v| v.last().copied()), m2.used.epus, 2);
    slot("nepus", line_with(&plain, "+ Consumida en usos no EPB:").map(nums).and_then(|v| v.last().copied()), m2.used.nepus, 2);
    slot("prod", line_with(&plain, "Generada:").map(nums).and_then(|v| v.last().copied()), m2.prod.an, 2);
    slot("del.grid", line_with(&plain, "- de red:").map(nums).and_then(|v| v.last().copied()), m2.del.grid, 2);
    slot("exp", line_with(&plain, "Exportada:").map(nums).and_then(|v| v.last().copied()), m2.exp.an, 2);
    slot("exp.grid", line_with(&plain, "- a la red:").map(nums).and_then(|v| v.last().copied()), m2.exp.grid, 2);
    // the by-service table after "* por servicio:" (first occurrence): one row per service, sorted
    let rows: Vec<&str> = plain.split("* por servicio:\n").nth(1).unwrap_or("").lines().take_while(|l| l.starts_with("- ")).collect();
    let want_rows = sorted_kv(m2.used.epus_by_srv.iter());
    ob("plain.by_srv.rows", if rows.len() == want_rows.len() { t() } else { f() });
    for (row, (srv, v)) in rows.iter().zip(want_rows.iter()) {
        ob(&format!("plain.by_srv.{}.label", srv), if row.starts_with(&format!("- {}:", srv)) { t() } else { f() });
        slot(&format!("by_srv.{}", srv), nums(row).last().copied(), **v, 2);
    }
    // step B by service (last "* por servicio:" block)
    let rows_b: Vec<&str> = plain.rsplit("* por servicio:\n").next().unwrap_or("").lines().take_while(|l| l.starts_with("- ")).collect();
    let want_b = sorted_kv(m2.we.b_by_srv.iter());
    ob("plain.b_by_srv.rows", if rows_b.len() == want_b.len() { t() } else { f() });
    for (row, (srv, r)) in rows_b.iter().zip(want_b.iter()) {
        let v = nums(row);
        slot(&format!("b_by_srv.{}.ren", srv), v.first().copied(), r.ren, 2);
        slot(&format!("b_by_srv.{}.nren", srv), v.get(1).copied(), r.nren, 2);
        slot(&format!("b_by_srv.{}.co2", srv), v.get(3).copied(), r.co2, 2);
    }
    // every key / value table ("* por ...:" followed by "- label: value" rows) lists its rows in ascending order of
    // the label, whatever the iteration order of the maps
    {
        let lines: Vec<&str> = plain.lines().collect();
        let mut i = 0;
        let mut tbl = 0;
        while i < lines.len() {
            if lines[i].trim_start().starts_with("* por ") {
                let mut labels: Vec<String> = vec![];
                let mut j = i + 1;
                while j < lines.len() && lines[j].starts_with("- ") {
                    labels.push(lines[j][2..].split(':').next().unwrap_or("").trim().to_string());
                    j += 1;
                }
                let mut sorted = labels.clone();
                sorted.sort();
                sorted.dedup();
                ob(&format!("plain.table[{}].sorted-unique", tbl), if sorted == labels { t() } else { f() });
                tbl += 1;
                i = j;
            } else {
                i += 1;
            }
        }
    }
    // ---------------- XML
    match xml_well_formed(&xml) {
        Ok(()) => ob("xml.well-formed", t()),
        Err(why) => {
            <F as Scalar>::note(format!("xml: {}", why));
            ob("xml.well-formed", f())
        }
    }
    let xslot = |name: &str, open: &str, close: &str, want: F, dec: i32| match between(&xml, open, close).last().and_then(|s| s.trim().parse::<F>().ok()) {
        Some(g) => ob(&format!("xml.{}", name), g.close_dec(want, dec, 1.0)),
        None => ob(&format!("xml.{}.present", name), f()),
    };
    xslot("kexp", "<kexp>", "</kexp>", ep.k_exp, 2);
    xslot("AreaRef", "<AreaRef>", "</AreaRef>", ep.arearef, 2);
    xslot("Epm2.tot", "<tot>", "</tot>", m2.we.b.ren + m2.we.b.nren, 1);
    match xml.split("<Epm2>").last().and_then(|s| between(s, "<nren>", "</nren>").first().and_then(|x| x.trim().parse::<F>().ok())) {
        Some(g) => ob("xml.Epm2.nren", g.close_dec(m2.we.b.nren, 1, 1.0)),
        None => ob("xml.Epm2.nren.present", f()),
    }
    // every component's value list, in order
    let lists = between(&xml, "<Valores>", "</Valores>");
    let mut want_lists: Vec<Vec<F>> = ep.components.data.iter().map(|c| c.values().to_vec()).collect();
    for nd in [&ep.components.needs.ACS, &ep.components.needs.CAL, &ep.components.needs.REF] {
        if let Some(v) = nd {
            want_lists.push(v.clone());
        }
    }
    ob("xml.value-lists", if lists.len() == want_lists.len() { t() } else { f() });
    for (i, (got, want)) in lists.iter().zip(want_lists.iter()).enumerate() {
        let g: Vec<F> = got.split(',').filter_map(|s| s.trim().parse::<F>().ok()).collect();
        ob(&format!("xml.values[{}].len", i), if g.len() == want.len() { t() } else { f() });
        for (j, (a, b)) in g.iter().zip(want.iter()).enumerate() {
            ob(&format!("xml.values[{}][{}]", i, j), a.close_dec(*b, 2, 1.0));
        }
    }
    // comments and metadata survive: the character data of every <Comentario>, <Clave>, <Valor> element, with
    // the predefined entities resolved, is the declared text (characters XML 1.0 cannot carry may be dropped;
    // the implementation writes a backslash as &apos;, which is well formed and accepted here)
    let same_text = |got: &str, want: &str| {
        let filtered: String = want.chars().filter(|c| xml_char(*c)).collect();
        let got = xml_unescape(got);
        got == want || got == filtered || got == want.replace('\\', "'") || got == filtered.replace('\\', "'")
    };
    let comments = between(&xml, "<Comentario>", "</Comentario>");
    for (i, c) in ep.components.data.iter().enumerate().filter(|(_, c)| !c.comment().is_empty()) {
        ob(&format!("xml.comment-kept[{}]", i), if comments.iter().any(|g| same_text(g, c.comment())) { t() } else { f() });
    }
    for (i, w) in ep.wfactors.wdata.iter().enumerate().filter(|(_, w)| !w.comment.is_empty()) {
        ob(&format!("xml.factor-comment-kept[{}]", i), if comments.iter().any(|g| same_text(g, &w.comment)) { t() } else { f() });
    }
    let (keys, vals) = (between(&xml, "<Clave>", "</Clave>"), between(&xml, "<Valor>", "</Valor>"));
    let metas: Vec<&Meta> = ep.wfactors.wmeta.iter().chain(ep.components.meta.iter()).collect();
    ob("xml.metadata.count", if keys.len() == metas.len() && vals.len() == metas.len() { t() } else { f() });
    for (i, m) in metas.iter().enumerate() {
        let found = keys.iter().zip(vals.iter()).any(|(k_, v_)| same_text(k_, &m.key) && same_text(v_, &m.value));
        ob(&format!("xml.metadata.kept[{}]", i), if found { t() } else { f() });
    }
    // ---------------- JSON: valid, and reads back into an equal result
    match json {
        Ok(js) => match serde_json::from_str::<EnergyPerformance>(&js) {
            Ok(back) => {
                let (la, lb) = (leaves(&ep), leaves(&back));
                if la.len() != lb.len() || la.iter().zip(lb.iter()).any(|(x, y)| x.0 != y.0) {
                    ob("json.same-structure", f());
                } else {
                    for ((nm, x), (_, y)) in la.iter().zip(lb.iter()) {
                        // RenNrenCo2 values are serialized rounded to three decimals
                        let rounded = nm.ends_with(".ren") || nm.ends_with(".nren") || nm.ends_with(".co2");
                        let want = if rounded { (*x * k(1000.0)).round_() / k(1000.0) } else { *x };
                        ob(&format!("json{}", nm), y.close_dec(want, 6, 4.0));
                    }
                }
                ob("json.components", if back.components.data.len() == ep.components.data.len() && back.wfactors.wdata.len() == ep.wfactors.wdata.len() { t() } else { f() });
                let same_comments = back.components.data.iter().zip(ep.components.data.iter()).all(|(a, b)| a.comment() == b.comment())
                    && back.wfactors.wdata.iter().zip(ep.wfactors.wdata.iter()).all(|(a, b)| a.comment == b.comment);
                let same_meta = back.components.meta.len() == ep.components.meta.len()
                    && back.components.meta.iter().zip(ep.components.meta.iter()).all(|(a, b)| a.key == b.key && a.value == b.value)
                    && back.wfactors.wmeta.len() == ep.wfactors.wmeta.len()
                    && back.wfactors.wmeta.iter().zip(ep.wfactors.wmeta.iter()).all(|(a, b)| a.key == b.key && a.value == b.value);
                ob("json.text-kept", if same_comments && same_meta { t() } else { f() });
            }
            Err(_) => ob("json.reads-back", f()),
        },
        Err(_) => ob("json.serializes", f()),
    }
    "ok".into()
}
