//! C11 — results scale linearly with energy and inversely with area.

use crate::common::*;
use cteepbd::*;

pub fn units(tier: &str, seed: u64) -> Vec<String> {
    let shapes: &[&str] = &[
        "U:CAL:ELECTRICIDAD;P:EL_INSITU",
        "U:ILU:ELECTRICIDAD;P:EL_INSITU;U:NEPB:ELECTRICIDAD",
        "U:ACS:ELECTRICIDAD;P:EL_COGEN;U:COGEN:GASNATURAL",
        "1/U:ACS:ELECTRICIDAD;1/U:ACS:EAMBIENTE;1/P:EAMBIENTE;D:ACS",
        "U:CAL:ELECTRICIDAD;P:EL_INSITU;2/P:EL_INSITU;U:ACS:GASNATURAL",
    ];
    let js: Vec<i32> = if tier == "thorough" { vec![-6, -3, -1, 1, 2, 6] } else { vec![-6, 1 + (seed % 5) as i32] };
    let mut v = vec![];
    for s in shapes {
        for j in &js {
            v.push(unit(&[("shape", s), ("n", "1"), ("fs", "PEN"), ("k", "sym"), ("a", "sym"), ("j", &j.to_string()), ("what", "energy"), ("scale", "1")]));
        }
        v.push(unit(&[("shape", s), ("n", "1"), ("fs", "PEN"), ("k", "sym"), ("a", "sym"), ("j", "3"), ("what", "area"), ("scale", "1")]));
    }
    v.push(unit(&[("shape", shapes[0]), ("n", "1"), ("fs", "CAN"), ("k", "sym"), ("a", "sym"), ("j", "-2"), ("what", "energy"), ("lm", "1"), ("scale", "1")]));
    // auxiliaries shared by very small outputs (a heat pump that barely runs in summer)
    // (two steps: a step's output mix must be able to differ from the annual one)
    v.push(unit(&[("shape", "1/~U:CAL:ELECTRICIDAD;1/~U:ACS:ELECTRICIDAD;1/~X;1/~O:CAL;1/~O:ACS"), ("n", "2"), ("fs", "PEN"), ("k", "sym"), ("a", "sym"), ("j", "-6"), ("what", "energy"), ("scale", "1"), ("dom", "0.002:100"), ("bud", "90")]));
    // the building's demands (absolute and per m2) under a change of area
    v.push(unit(&[("shape", "1/U:ACS:ELECTRICIDAD;1/U:ACS:EAMBIENTE;U:CAL:GASNATURAL;D:ACS;D:CAL;D:REF"), ("n", "1"), ("fs", "PEN"), ("k", "sym"), ("a", "sym"), ("j", "2"), ("what", "area"), ("scale", "1")]));
    // down to fractions of a Wh, with load matching: no absolute magnitude may matter
    v.push(unit(&[("shape", shapes[0]), ("n", "1"), ("fs", "PEN"), ("k", "sym"), ("a", "sym"), ("j", "-6"), ("what", "energy"), ("lm", "1"), ("scale", "1"), ("dom", "0.002:100")]));
    v.push(unit(&[("shape", shapes[4]), ("n", "1"), ("fs", "PEN"), ("k", "sym"), ("a", "sym"), ("j", "-6"), ("what", "energy"), ("lm", "0"), ("scale", "1"), ("dom", "0.002:100")]));
    if tier == "thorough" {
        for s in shapes {
            v.push(unit(&[("shape", s), ("n", "2"), ("fs", "BAL"), ("k", "sym"), ("a", "sym"), ("j", "4"), ("what", "energy"), ("lm", "1"), ("scale", "1")]));
        }
    }
    v
}

/// leaves that must not change under scaling of the energy values
fn ratio_like(name: &str) -> bool {
    name.starts_with(".rer") || name == ".k_exp" || name == ".arearef" || name.contains(".f_match[")
}

pub fn scenario(u: &Unit) -> String {
    let j: i32 = u.get("j").parse().unwrap();
    let c = (2.0f32).powi(j);
    let mut lines = parse_shape(u.get("shape"));
    let n = u.n();
    // both v and c*v stay in the domain: zero or [0.01, 1e6]
    let (lo, hi) = if j < 0 { (0.01 / c, 1.0e6) } else { (0.01, 1.0e6 / c) };
    let what = u.get("what");
    for l in lines.iter_mut() {
        if what == "energy" && dom_override().is_none() {
            l.dom = Dom::EnergyR(lo, hi);
        }
    }
    let base_text = shape_text(&lines, n);
    let fp = match factors(u.get_or("fs", "PEN"), &carriers_of(&lines)) {
        Ok(x) => x,
        Err(e) => return err_kind(&e).to_string(),
    };
    let kexp = input("kexp", Dom::Range(0.0, 1.0));
    let (alo, ahi) = if j < 0 { (0.001 / c, 1.0e6) } else { (0.001, 1.0e6 / c) };
    let area = input("area", Dom::Range(alo, ahi));
    // scaled building: every energy value multiplied by c (the product node is what the text carries)
    let scaled_text = {
        let mut s = String::new();
        for l in &lines {
            let vals: Vec<String> = (0..n).map(|t| format!("{}", if what == "energy" { k(c) * line_value(l, t) } else { line_value(l, t) })).collect();
            s.push_str(&render_line(l, &vals));
            s.push('\n');
        }
        s
    };
    let area2 = if what == "area" { k(c) * area } else { area };
    let run = |text: &str, a: F| {
        spec(false);
        let r = text.parse::<Components>().and_then(|cs| energy_performance(&cs, &fp, kexp, a, u.lm()));
        spec(true);
        r.map_err(|e| err_kind(&e).to_string())
    };
    let (a, b) = match (run(&base_text, area), run(&scaled_text, area2)) {
        (Ok(a), Ok(b)) => (a, b),
        (Err(x), Err(y)) => {
            ob("same-error", if x == y { t() } else { f() });
            return format!("err-both:{}", x);
        }
        (Err(e), _) | (_, Err(e)) => {
            ob("same-outcome", f());
            return format!("outcome-differs:{}", e);
        }
    };
    rec_ep("base", &a);
    rec_ep("scaled", &b);
    let (la, lb) = (leaves(&a), leaves(&b));
    if la.len() != lb.len() || la.iter().zip(lb.iter()).any(|(x, y)| x.0 != y.0) {
        ob("same-structure", f());
        return "ok".into();
    }
    for ((nm, x), (_, y)) in la.iter().zip(lb.iter()) {
        let want = if what == "energy" {
            if ratio_like(nm) {
                *x
            } else {
                k(c) * *x
            }
        } else if nm.starts_with(".m2") {
            k(1.0 / c) * *x
        } else if nm == ".arearef" {
            k(c) * *x
        } else {
            *x
        };
        // exact for powers of two (scaling normal form); the tolerant statement is the replay predicate
        ob_via(&format!("scales{}", nm), "pow2-scaling", y.ident(want), y.approx(want, 64.0, want));
    }
    // DHW renewable fraction is scale invariant
    if lines.iter().any(|l| l.kind == 'D') {
        spec(false);
        let (fa, fb) = (cte::fraccion_renovable_acs_nrb(&a), cte::fraccion_renovable_acs_nrb(&b));
        spec(true);
        match (fa, fb) {
            (Ok(x), Ok(y)) => {
                out("dhw.base", x);
                out("dhw.scaled", y);
                ob_via("dhw-fraction-invariant", "pow2-scaling", x.ident(y), x.approx(y, 64.0, k(1.0)));
            }
            (Err(_), Err(_)) => {}
            _ => ob("dhw-fraction-same-outcome", f()),
        }
    }
    "ok".into()
}
