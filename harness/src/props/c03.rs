//! C03 — k_exp only interpolates between step A and step B.

use crate::common::*;
use cteepbd::types::RenNrenCo2;

pub fn units(tier: &str, _seed: u64) -> Vec<String> {
    let shapes: &[(&str, &str)] = &[
        ("U:CAL:ELECTRICIDAD", "PEN"),
        ("U:CAL:ELECTRICIDAD;P:EL_INSITU", "PEN"),
        ("U:CAL:ELECTRICIDAD;P:EL_INSITU", "SYM"),
        ("U:ILU:ELECTRICIDAD;P:EL_INSITU;U:NEPB:ELECTRICIDAD", "SYM"),
        ("U:ACS:ELECTRICIDAD;P:EL_COGEN;U:COGEN:GASNATURAL;U:NEPB:ELECTRICIDAD", "PEN"),
        ("U:ACS:TERMOSOLAR;P:TERMOSOLAR;U:CAL:GASNATURAL", "CAN"),
    ];
    let mut v = vec![];
    for (s, fs) in shapes {
        v.push(unit(&[("shape", s), ("n", "1"), ("fs", fs), ("k", "sym"), ("lm", "0")]));
    }
    v.push(unit(&[("shape", shapes[1].0), ("n", "1"), ("fs", "PEN"), ("k", "sym"), ("lm", "1")]));
    // two services whose mix may differ from step to step, with surplus production at some steps: the service
    // shares of step A and step B must be the same annual shares
    v.push(unit(&[("shape", "U:CAL:ELECTRICIDAD;U:REF:ELECTRICIDAD;P:EL_INSITU"), ("n", "2"), ("fs", "PEN"), ("k", "sym"), ("lm", "0")]));
    // a user file that spells out every factor, step B grid supply lines included (never used by the method)
    v.push(unit(&[("shape", "U:CAL:ELECTRICIDAD;P:EL_INSITU;U:ACS:GASNATURAL"), ("n", "1"), ("fs", "FULL"), ("k", "sym"), ("lm", "0"), ("bud", "100")]));
    // cogeneration with import at one step and export at another (step A and step B results of opposite sign)
    v.push(unit(&[("shape", "U:ACS:ELECTRICIDAD;P:EL_COGEN;U:COGEN:GASNATURAL"), ("n", "2"), ("fs", "PEN"), ("k", "sym"), ("lm", "0"), ("bud", "100")]));
    if tier == "thorough" {
        for (s, fs) in shapes {
            v.push(unit(&[("shape", s), ("n", "2"), ("fs", fs), ("k", "sym"), ("lm", "0")]));
        }
        v.push(unit(&[("shape", "U:CAL:ELECTRICIDAD;U:ACS:ELECTRICIDAD;P:EL_INSITU;P:EL_COGEN;U:COGEN:BIOMASA;U:NEPB:ELECTRICIDAD"), ("n", "1"), ("fs", "SYM"), ("k", "sym"), ("lm", "0")]));
    }
    v
}

/// leaves that may legitimately depend on k_exp
fn k_dependent(name: &str) -> bool {
    name == ".k_exp"
        || name.starts_with(".rer")
        || name.contains(".we.b.")
        || name.contains(".we.b_by_srv.")
        || name.ends_with(".we.exp.ren")
        || name.ends_with(".we.exp.nren")
        || name.ends_with(".we.exp.co2")
}

fn comps(r: &RenNrenCo2) -> [(&'static str, F); 3] {
    [("ren", r.ren), ("nren", r.nren), ("co2", r.co2)]
}

pub fn scenario(u: &Unit) -> String {
    let e = match prepare(u) {
        Ok(e) => e,
        Err(s) => return s,
    };
    let kk = e.kexp;
    let run = |kv: F| evaluate_with(&e, &e.fp, kv, e.area, e.lm);
    let (epk, ep0, ep1) = match (run(kk), run(k(0.0)), run(k(1.0))) {
        (Ok(a), Ok(b), Ok(c)) => (a, b, c),
        (Err(s), _, _) | (_, Err(s), _) | (_, _, Err(s)) => return s,
    };
    rec_ep("k", &epk);
    rec_ep("k0", &ep0);
    rec_ep("k1", &ep1);
    let (lk, l0, l1) = (leaves(&epk), leaves(&ep0), leaves(&ep1));
    if lk.len() != l0.len() || lk.len() != l1.len() {
        ob("same-structure-for-all-k", f());
        return "ok".into();
    }
    // (1) flows and step A do not depend on k_exp at all
    for i in 0..lk.len() {
        let (n, v) = &lk[i];
        if n != &l0[i].0 || n != &l1[i].0 {
            ob("same-structure-for-all-k", f());
            return "ok".into();
        }
        if !k_dependent(n) {
            ob(&format!("indep{}", n), v.ident(l0[i].1).and(v.ident(l1[i].1)));
        }
    }
    // (2) per carrier: B(k) = del - (exp_a + k * exp_ab), B(0) = A, and the affine relation
    for ((cname, bk), ((_, b0), (_, b1))) in sorted_kv(epk.balance_cr.iter()).into_iter().zip(sorted_kv(ep0.balance_cr.iter()).into_iter().zip(sorted_kv(ep1.balance_cr.iter()))) {
        let w = &bk.we;
        let (del, ea, eab, a, bb) = (comps(&w.del), comps(&w.exp_a), comps(&w.exp_ab), comps(&w.a), comps(&w.b));
        let (b0c, b1c, a0) = (comps(&b0.we.b), comps(&b1.we.b), comps(&b0.we.a));
        for j in 0..3 {
            let nm = format!("{}.{}", cname, del[j].0);
            let expected = del[j].1 - (ea[j].1 + kk * eab[j].1);
            ob(&format!("B(k)=del-(expA+k*expAB).{}", nm), bb[j].1.ident(expected));
            ob(&format!("A=del-expA.{}", nm), a[j].1.ident(del[j].1 - ea[j].1));
            ob(&format!("B(0)=A.{}", nm), b0c[j].1.ident(a0[j].1));
            ob(&format!("B(1)=del-(expA+expAB).{}", nm), b1c[j].1.ident(del[j].1 - (ea[j].1 + eab[j].1)));
            // affine interpolation B(k) = A + k (B(1) - A): follows from the three structural identities
            // above by the association of three additions; stated directly for replay, discharged through them
            let affine = a[j].1 + kk * (b1c[j].1 - a[j].1);
            let mag = del[j].1.abs_() + ea[j].1.abs_() + eab[j].1.abs_();
            let prem = bb[j].1.ident(expected).and(b1c[j].1.ident(del[j].1 - (ea[j].1 + eab[j].1))).and(a[j].1.ident(del[j].1 - ea[j].1));
            ob_via(&format!("B(k)~A+k(B(1)-A).{}", nm), "affine-structure", prem, bb[j].1.approx(affine, 16.0, mag));
            // nothing exported: the result does not depend on k at all
            ob(&format!("noexport=>B(k)=B(0).{}", nm), k(0.0).lt_(bk.exp.an).or(bb[j].1.ident(b0c[j].1)));
        }
        // per service: B_srv(k) and A_srv are the carrier's B(k) and A times the service's share of the EPB use
        // (reverse calculation), so they are affine in k exactly like the carrier's figures
        for (srv, r) in sorted_kv(w.b_by_srv.iter()) {
            let share = match crate::by_name!(bk.used.epus_by_srv_an, srv) {
                Some(s) => *s / bk.used.epus_an,
                None => {
                    ob(&format!("B_srv(k).{}.{}.has-use", cname, srv), f());
                    continue;
                }
            };
            let has_use = k(0.0).lt_(bk.used.epus_an);
            for ((n, x), (_, whole)) in comps(r).iter().zip(comps(&w.b).iter()) {
                ob(&format!("B_srv(k)=B(k)*share.{}.{}.{}", cname, srv, n), has_use.clone().not().or(x.ident(*whole * share)));
            }
            if let Some(ra) = crate::by_name!(w.a_by_srv, srv) {
                for ((n, x), (_, whole)) in comps(ra).iter().zip(comps(&w.a).iter()) {
                    ob(&format!("A_srv=A*share.{}.{}.{}", cname, srv, n), has_use.clone().not().or(x.ident(*whole * share)));
                }
            }
        }
        for (srv, r) in sorted_kv(w.b_by_srv.iter()) {
            let r0 = crate::by_name!(b0.we.b_by_srv, srv);
            let ra = crate::by_name!(b0.we.a_by_srv, srv);
            match (r0, ra) {
                (Some(r0), Some(ra)) => {
                    for ((n, x), (_, y)) in comps(r0).iter().zip(comps(ra).iter()) {
                        ob(&format!("B(0)=A.{}.{}.{}", cname, srv, n), x.ident(*y));
                    }
                    let _ = r;
                }
                _ => ob(&format!("B(0)=A.{}.{}.present", cname, srv), f()),
            }
        }
    }
    // (3) whole building and per m2: B(0) = A; RER at k = 0 equals the step A ratio
    for (p, b) in [("bal", &ep0.balance), ("m2", &ep0.balance_m2)] {
        for ((n, x), (_, y)) in comps(&b.we.b).iter().zip(comps(&b.we.a).iter()) {
            ob(&format!("B(0)=A.{}.{}", p, n), x.ident(*y));
        }
        for (srv, r) in sorted_kv(b.we.b_by_srv.iter()) {
            if let Some(ra) = crate::by_name!(b.we.a_by_srv, srv) {
                for ((n, x), (_, y)) in comps(r).iter().zip(comps(ra).iter()) {
                    ob(&format!("B(0)=A.{}.{}.{}", p, srv, n), x.ident(*y));
                }
            }
        }
    }
    // (4) whole building and per m2, total and per service: affine in k_exp (sums over carriers of affine terms:
    // a tolerant statement; with one carrier it is the carrier's own)
    for (p, bk_, b1_) in [("bal", &epk.balance, &ep1.balance), ("m2", &epk.balance_m2, &ep1.balance_m2)] {
        let ncr = epk.balance_cr.len() as f32;
        let magv = comps(&bk_.we.del).iter().zip(comps(&bk_.we.exp_a).iter()).zip(comps(&b1_.we.exp).iter()).map(|((d, e), x)| d.1.abs_() + e.1.abs_() + x.1.abs_()).collect::<Vec<F>>();
        for (j, ((n, bb), ((_, a_), (_, b1v)))) in comps(&bk_.we.b).iter().zip(comps(&bk_.we.a).iter().zip(comps(&b1_.we.b).iter())).enumerate() {
            ob(&format!("B(k)~A+k(B(1)-A).{}.{}", p, n), bb.approx(*a_ + kk * (*b1v - *a_), 16.0 * ncr + 16.0, magv[j]));
        }
        for (srv, r) in sorted_kv(bk_.we.b_by_srv.iter()) {
            if let (Some(ra), Some(r1)) = (crate::by_name!(bk_.we.a_by_srv, srv), crate::by_name!(b1_.we.b_by_srv, srv)) {
                for (j, ((n, bb), ((_, a_), (_, b1v)))) in comps(r).iter().zip(comps(ra).iter().zip(comps(r1).iter())).enumerate() {
                    ob(&format!("B(k)~A+k(B(1)-A).{}.{}.{}", p, srv, n), bb.approx(*a_ + kk * (*b1v - *a_), 16.0 * ncr + 16.0, magv[j]));
                }
            }
        }
    }
    let a = &ep0.balance.we.a;
    let tot = a.ren + a.nren;
    ob("rer(0)=renA/totA", tot.eq_(k(0.0)).or(ep0.rer.ident(a.ren / tot)));
    ob("k_exp-echoed", epk.k_exp.ident(kk));
    "ok".into()
}
