//! C06 — all declared auxiliary electricity is counted once, for the right services.

use crate::common::*;
use cteepbd::types::*;
use cteepbd::*;

pub fn units(tier: &str, _seed: u64) -> Vec<String> {
    let shapes: &[&str] = &[
        // single-service system: everything on that service
        "1/U:CAL:GASNATURAL;1/X",
        "1/U:CAL:GASNATURAL;1/X;1/X",
        // multi-service system with declared outputs
        "1/U:CAL:GASNATURAL;1/U:ACS:GASNATURAL;1/X;1/~O:CAL;1/~O:ACS",
        // two systems with auxiliaries: a multi-service one and a single-service one
        "1/U:CAL:GASNATURAL;1/U:ACS:GASNATURAL;1/X;1/~O:CAL;1/~O:ACS;2/U:REF:ELECTRICIDAD;2/X",
        "2/U:REF:ELECTRICIDAD;2/X;1/U:CAL:GASNATURAL;1/U:ACS:GASNATURAL;1/X;1/~O:CAL;1/~O:ACS",
        // two multi-service systems with auxiliaries
        "1/U:CAL:GASNATURAL;1/U:ACS:GASNATURAL;1/X;1/~O:CAL;1/~O:ACS;5/U:CAL:ELECTRICIDAD;5/U:REF:ELECTRICIDAD;5/X;5/~O:CAL;5/~O:REF",
        // heating (positive) and cooling (negative) outputs of one system
        "1/U:CAL:ELECTRICIDAD;1/U:REF:ELECTRICIDAD;1/X;1/O:CAL;1/O:REF",
        // a system that also declares output for a service it has no consumption for (passive cooling)
        "1/U:CAL:ELECTRICIDAD;1/U:ACS:ELECTRICIDAD;1/X;1/~O:CAL;1/~O:ACS;1/~O:REF",
        // a subsystem with auxiliaries and declared outputs whose consumption is declared under another id
        "3/X;3/~O:CAL;3/~O:ACS;1/U:CAL:GASNATURAL;1/U:ACS:GASNATURAL;U:ILU:ELECTRICIDAD",
    ];
    let mut v = vec![];
    for s in shapes {
        v.push(unit(&[("shape", s), ("n", "1")]));
    }
    v.push(unit(&[("shape", shapes[2]), ("n", "2")]));
    // two output lines for the same system and service (they add up), and a step without any output
    v.push(unit(&[("shape", "1/U:CAL:GASNATURAL;1/U:ACS:GASNATURAL;1/X;1/~O:CAL;1/~O:CAL;1/~O:ACS"), ("n", "1")]));
    v.push(unit(&[("shape", shapes[6]), ("n", "2")]));
    if tier == "thorough" {
        for s in shapes {
            v.push(unit(&[("shape", s), ("n", "2"), ("ord", "rev")]));
            v.push(unit(&[("shape", s), ("n", "1"), ("ord", "hash:3")]));
        }
        v.push(unit(&[("shape", "1/U:CAL:GASNATURAL;1/U:ACS:GASNATURAL;1/U:REF:ELECTRICIDAD;1/X;1/O:CAL;1/O:ACS;1/O:REF"), ("n", "1")]));
    }
    v
}

pub fn scenario(u: &Unit) -> String {
    let lines = parse_shape(u.get("shape"));
    let n = u.n();
    let text = shape_text(&lines, n);
    spec(false);
    let parsed = text.parse::<Components>();
    spec(true);
    let comps = match parsed {
        Ok(c) => c,
        Err(e) => return err_kind(&e).to_string(),
    };
    // recorded by (system, service, occurrence): the order of generated components follows hash-map order
    let mut seen: Vec<String> = vec![];
    for c in comps.data.iter() {
        if let Energy::Aux(e) = c {
            let key = format!("id{}:{:?}", e.id, e.service);
            let occ = seen.iter().filter(|s| **s == key).count();
            seen.push(key.clone());
            rec_v(&format!("aux[{}#{}]", key, occ), &e.values);
        }
    }
    let mut ids: Vec<i32> = lines.iter().filter(|l| l.kind == 'X').map(|l| l.id.unwrap_or(0)).collect();
    ids.sort();
    ids.dedup();
    let zero = k(0.0);
    for id in &ids {
        let id = *id;
        let xs: Vec<&LineT> = lines.iter().filter(|l| l.kind == 'X' && l.id.unwrap_or(0) == id).collect();
        let mut srvs: Vec<String> = lines.iter().filter(|l| l.kind == 'U' && l.id.unwrap_or(0) == id).map(|l| l.a.clone()).collect();
        srvs.sort();
        srvs.dedup();
        let got: Vec<&EAux> = comps.data.iter().filter_map(|c| if let Energy::Aux(e) = c { if e.id == id { Some(e) } else { None } } else { None }).collect();
        ob(&format!("id{}.aux-survives", id), if got.is_empty() { f() } else { t() });
        for tt in 0..n {
            // declared auxiliary energy of the system at this step (folded as veclistsum: from +0.0)
            let decl = xs.iter().fold(zero, |a, l| a + line_value(l, tt));
            let tag = |s: &str| format!("id{}.{}[{}]", id, s, tt);
            for e in &got {
                ob(&tag(&format!("share.{:?}>=0", e.service)), e.values.get(tt).map(|v| zero.le_(*v)).unwrap_or(f()));
                ob(&tag(&format!("share.{:?}<=declared", e.service)), e.values.get(tt).map(|v| v.le_(decl)).unwrap_or(f()));
            }
            let sum = got.iter().fold(None::<F>, |a, e| {
                let v = e.values.get(tt).copied().unwrap_or(zero);
                Some(a.map(|x| x + v).unwrap_or(v))
            });
            if srvs.len() == 1 {
                // everything on the only service, values untouched
                for e in &got {
                    ob(&tag("single-service"), if format!("{:?}", e.service) == srvs[0] { t() } else { f() });
                }
                let untouched = xs.iter().fold(None::<F>, |a, l| Some(a.map(|x| x + line_value(l, tt)).unwrap_or(line_value(l, tt))));
                match (sum, untouched) {
                    (Some(s), Some(w)) => ob(&tag("sum=declared"), s.ident(w)),
                    _ => ob(&tag("sum=declared"), f()),
                }
            } else {
                // shares proportional to the magnitude of the output energy of each service
                let mut q: Vec<(String, F)> = vec![];
                for l in lines.iter().filter(|l| l.kind == 'O' && l.id.unwrap_or(0) == id) {
                    let v = line_value(l, tt);
                    match q.iter_mut().find(|x| x.0 == l.a) {
                        Some(x) => x.1 = x.1 + v,
                        None => q.push((l.a.clone(), zero + v)),
                    }
                }
                let mag_tot = q.iter().fold(None::<F>, |a, x| Some(a.map(|y| y + x.1.abs_()).unwrap_or(zero + x.1.abs_())));
                // the same per service and in total over the whole period: at a step where the system delivers
                // nothing its auxiliary energy is shared by the annual proportions (nothing is dropped)
                let q_at = |srv: &str, t2: usize| -> F {
                    lines.iter().filter(|l| l.kind == 'O' && l.id.unwrap_or(0) == id && l.a == srv).fold(zero, |a, l| a + line_value(l, t2)).abs_()
                };
                let tot_at = |t2: usize| -> F { q.iter().fold(None::<F>, |a, x| Some(a.map(|y| y + q_at(&x.0, t2)).unwrap_or(zero + q_at(&x.0, t2)))).unwrap_or(zero) };
                let tot_an = <F as Scalar>::sum((0..n).map(|t2| tot_at(t2)));
                let mut structural = t();
                for e in &got {
                    let name = format!("{:?}", e.service);
                    match (q.iter().find(|x| x.0 == name), mag_tot, e.values.get(tt)) {
                        (Some((_, qs)), Some(mt), Some(v)) => {
                            let want = (qs.abs_() / mt) * decl;
                            let srv_an = <F as Scalar>::sum((0..n).map(|t2| q_at(&name, t2)));
                            let want_an = (srv_an / tot_an) * decl;
                            let zero_case = mt.le_(zero);
                            let an_case = zero.lt_(tot_an);
                            let s_zero = an_case.clone().and(v.ident(want_an)).or(an_case.not().and(v.ident(zero * decl)));
                            let s = zero_case.clone().and(s_zero).or(zero_case.not().and(v.ident(want)));
                            ob(&tag(&format!("share.{}=aux*|q|/sum|q|", name)), s.clone());
                            structural = structural.and(s);
                        }
                        _ => {
                            ob(&tag(&format!("share.{}.has-output", name)), f());
                            structural = f();
                        }
                    }
                }
                // the shares add up to what was declared, at every step (also where the system delivers nothing)
                if let (Some(s), Some(_mt)) = (sum, mag_tot) {
                    let kk = 3.0 * got.len() as f32 + 2.0 + n as f32;
                    ob_via(&tag("sum~declared"), "shares-structure", structural, s.approx(decl, kk, decl));
                }
            }
        }
    }
    // evaluation: auxiliaries are EPB electricity use, even when they are the only electricity
    let fp = match factors("PEN", &["ELECTRICIDAD", "GASNATURAL"]) {
        Ok(x) => x,
        Err(e) => return err_kind(&e).to_string(),
    };
    spec(false);
    let ep = energy_performance(&comps, &fp, zero, k(1.0), false);
    // what the program does by default: the factor set reduced to what the building needs
    let slim = energy_performance(&comps, &fp.clone().strip(&comps), zero, k(1.0), false);
    spec(true);
    match (&ep, &slim) {
        (Ok(a), Ok(b)) => match (crate::by_name!(a.balance_cr, "ELECTRICIDAD"), crate::by_name!(b.balance_cr, "ELECTRICIDAD")) {
            (Some(x), Some(y)) => {
                for tt in 0..n {
                    ob(&format!("el.epus(simplified factors)[{}]", tt), x.used.epus_t[tt].ident(y.used.epus_t[tt]));
                }
            }
            (None, None) => {}
            _ => ob("simplified-factors-keep-the-electricity-balance", f()),
        },
        (Ok(_), Err(_)) => ob("simplified-factors-evaluate", f()),
        _ => {}
    }
    match ep {
        Ok(ep) => match crate::by_name!(ep.balance_cr, "ELECTRICIDAD") {
            Some(b) => {
                rec_v("el.used.epus_t", &b.used.epus_t);
                for tt in 0..n {
                    let mut want = zero;
                    let mut mag = zero;
                    for l in &lines {
                        let is_el_use = l.kind == 'U' && l.b == "ELECTRICIDAD" && l.a != "NEPB" && l.a != "COGEN";
                        if is_el_use || l.kind == 'X' {
                            want = want + line_value(l, tt);
                            mag = mag + line_value(l, tt);
                        }
                    }
                    // structurally: the EPB electricity use is the fold of the parsed electricity uses and
                    // auxiliary components (whose per-system sums are tied to the declarations above)
                    let mut fold = zero;
                    for c in comps.data.iter() {
                        match c {
                            Energy::Used(e) if format!("{:?}", e.carrier) == "ELECTRICIDAD" && e.service.is_epb() => fold = fold + e.values[tt],
                            Energy::Aux(e) => fold = fold + e.values[tt],
                            _ => {}
                        }
                    }
                    ob_via(&format!("el.epus~uses+aux[{}]", tt), "shares-structure", b.used.epus_t[tt].ident(fold), b.used.epus_t[tt].approx(want, 4.0 * lines.len() as f32, mag));
                }
            }
            None => ob("auxiliaries-have-an-electricity-balance", if ids.is_empty() { t() } else { f() }),
        },
        Err(e) => return format!("eval-{}", e_kind(&e)),
    }
    "ok".into()
}

fn e_kind(e: &error::EpbdError) -> &'static str {
    err_kind(e)
}
