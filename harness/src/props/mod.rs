//! Property scenarios.  Each module exposes `units(tier, seed)` and `scenario(&Unit) -> outcome`.
use crate::common::Unit;

pub mod c01;

pub const ALL: &[&str] = &["C01"];

pub fn units(prop: &str, tier: &str, seed: u64) -> Vec<String> {
    match prop {
        "C01" => c01::units(tier, seed),
        _ => panic!("unknown property {}", prop),
    }
}

pub fn scenario(prop: &str, u: &Unit) -> String {
    match prop {
        "C01" => c01::scenario(u),
        _ => panic!("unknown property {}", prop),
    }
}

/// properties about outcomes (panics, error kinds): every unclassified branch side counts
pub fn strict_unexplored(prop: &str) -> bool {
    matches!(prop, "C16")
}
