//! Property scenarios.  Each module exposes `units(tier, seed)` and `scenario(&Unit) -> outcome`.
use crate::common::Unit;

pub mod c01;
pub mod c12;
pub mod c19;
pub mod c15;
pub mod c17;
pub mod c18;
pub mod c16;
pub mod c14;
pub mod c02;
pub mod c11;
pub mod c09;
pub mod c10;
pub mod c07;
pub mod c06;
pub mod c05;
pub mod c04;
pub mod c13;
pub mod c08;
pub mod c03;

pub const ALL: &[&str] = &["C01", "C02", "C03", "C04", "C05", "C06", "C07", "C08", "C09", "C10", "C11", "C12", "C13", "C14", "C15", "C16", "C17", "C18", "C19"];

pub fn units(prop: &str, tier: &str, seed: u64) -> Vec<String> {
    match prop {
        "C01" => c01::units(tier, seed),
        "C12" => c12::units(tier, seed),
        "C19" => c19::units(tier, seed),
        "C15" => c15::units(tier, seed),
        "C17" => c17::units(tier, seed),
        "C18" => c18::units(tier, seed),
        "C16" => c16::units(tier, seed),
        "C14" => c14::units(tier, seed),
        "C02" => c02::units(tier, seed),
        "C11" => c11::units(tier, seed),
        "C09" => c09::units(tier, seed),
        "C10" => c10::units(tier, seed),
        "C07" => c07::units(tier, seed),
        "C06" => c06::units(tier, seed),
        "C05" => c05::units(tier, seed),
        "C04" => c04::units(tier, seed),
        "C13" => c13::units(tier, seed),
        "C08" => c08::units(tier, seed),
        "C03" => c03::units(tier, seed),
        _ => panic!("unknown property {}", prop),
    }
}

pub fn scenario(prop: &str, u: &Unit) -> String {
    crate::common::configure(u);
    match prop {
        "C01" => c01::scenario(u),
        "C12" => c12::scenario(u),
        "C19" => c19::scenario(u),
        "C15" => c15::scenario(u),
        "C17" => c17::scenario(u),
        "C18" => c18::scenario(u),
        "C16" => c16::scenario(u),
        "C14" => c14::scenario(u),
        "C02" => c02::scenario(u),
        "C11" => c11::scenario(u),
        "C09" => c09::scenario(u),
        "C10" => c10::scenario(u),
        "C07" => c07::scenario(u),
        "C06" => c06::scenario(u),
        "C05" => c05::scenario(u),
        "C04" => c04::scenario(u),
        "C13" => c13::scenario(u),
        "C08" => c08::scenario(u),
        "C03" => c03::scenario(u),
        _ => panic!("unknown property {}", prop),
    }
}

/// properties about outcomes (panics, error kinds): every unclassified branch side counts
pub fn strict_unexplored(prop: &str) -> bool {
    matches!(prop, "C16" | "C19")
}
