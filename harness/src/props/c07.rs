//! C07 — preparing weighting factors: complete, respectful of user values, idempotent.

use crate::common::*;
use cteepbd::types::*;
use cteepbd::*;

// line codes: <carrier>.<source>.<dest>.<step>
const ALL_EXPORT: [&str; 4] = ["EL.INSITU.A_RED.A", "EL.INSITU.A_NEPB.A", "EL.INSITU.A_RED.B", "EL.INSITU.A_NEPB.B"];

fn carrier_name(c: &str) -> &'static str {
    match c {
        "EL" => "ELECTRICIDAD",
        "GN" => "GASNATURAL",
        "MA" => "EAMBIENTE",
        "TS" => "TERMOSOLAR",
        "R1" => "RED1",
        "R2" => "RED2",
        "BM" => "BIOMASA",
        _ => panic!("carrier code"),
    }
}

pub fn units(tier: &str, seed: u64) -> Vec<String> {
    let mut v = vec![];
    let base = "EL.RED.SUMINISTRO.A,GN.RED.SUMINISTRO.A";
    // every subset of the four user-given export factors of on-site electricity
    let masks: Vec<u32> = if tier == "thorough" { (0..16).collect() } else { vec![0, 15, 1 + (seed as u32 % 14), 5, 10] };
    for m in masks {
        let mut l = base.to_string();
        for (i, e) in ALL_EXPORT.iter().enumerate() {
            if m >> i & 1 == 1 {
                l.push(',');
                l.push_str(e);
            }
        }
        v.push(unit(&[("lines", &l), ("red1", "none"), ("red2", "none")]));
    }
    let more: &[(&str, &str, &str)] = &[
        // user gives forced factors with other values (must be overridden) and RED1 in the file
        ("EL.RED.SUMINISTRO.A,EL.INSITU.SUMINISTRO.A,MA.INSITU.SUMINISTRO.A,MA.RED.SUMINISTRO.A,R1.RED.SUMINISTRO.A", "none", "sym"),
        ("EL.RED.SUMINISTRO.A,R1.RED.SUMINISTRO.A,R2.RED.SUMINISTRO.A", "sym", "none"),
        ("EL.RED.SUMINISTRO.A,R1.RED.SUMINISTRO.A,R2.RED.SUMINISTRO.A", "none", "sym"),
        ("EL.RED.SUMINISTRO.A,R2.RED.SUMINISTRO.A,R1.RED.SUMINISTRO.A", "sym", "sym"),
        ("EL.RED.SUMINISTRO.A,MA.INSITU.A_RED.A,MA.INSITU.A_NEPB.B,TS.INSITU.A_RED.B", "sym", "sym"),
        // unusable sets: a carrier without grid supply factor
        ("EL.RED.SUMINISTRO.A,GN.INSITU.SUMINISTRO.A", "none", "none"),
        ("EL.INSITU.A_RED.A,GN.RED.SUMINISTRO.A", "none", "none"),
        // ... a grid line that is not the step A supply factor does not make the carrier usable
        ("EL.RED.SUMINISTRO.A,GN.RED.SUMINISTRO.B", "none", "none"),
        ("EL.RED.SUMINISTRO.A,GN.RED.A_RED.A", "none", "none"),
        ("EL.RED.SUMINISTRO.A,BM.COGEN.SUMINISTRO.A,GN.RED.SUMINISTRO.A", "none", "none"),
        ("EL.RED.SUMINISTRO.B,GN.RED.SUMINISTRO.A", "none", "none"),
        // a usable set without electricity (what --of writes for a building without electricity)
        ("GN.RED.SUMINISTRO.A,BM.RED.SUMINISTRO.A", "none", "none"),
        ("GN.RED.SUMINISTRO.A,MA.INSITU.A_RED.B", "sym", "none"),
        // duplicate line: the first one wins
        ("EL.RED.SUMINISTRO.A,GN.RED.SUMINISTRO.A,GN.RED.SUMINISTRO.A", "none", "none"),
        ("EL.RED.SUMINISTRO.A,BM.RED.SUMINISTRO.A,EL.COGEN.A_RED.A", "none", "none"),
    ];
    for (l, r1, r2) in more {
        v.push(unit(&[("lines", l), ("red1", r1), ("red2", r2)]));
    }
    // one more line of every kind (carrier x source x destination x step) next to an electricity grid factor:
    // all of them in the thorough tier, a seed-selected third in the quick tier
    let mut i = 0u64;
    for c in ["EL", "GN", "MA", "TS", "R1", "R2", "BM"] {
        for src in ["RED", "INSITU", "COGEN"] {
            for dst in ["SUMINISTRO", "A_RED", "A_NEPB"] {
                for step in ["A", "B"] {
                    i += 1;
                    let code = format!("{}.{}.{}.{}", c, src, dst, step);
                    if code == "EL.RED.SUMINISTRO.A" || !(tier == "thorough" || (i + seed) % 3 == 0) {
                        continue;
                    }
                    v.push(unit(&[("lines", &format!("EL.RED.SUMINISTRO.A,{}", code)), ("red1", "none"), ("red2", "none")]));
                }
            }
        }
    }
    for loc in ["PEN", "BAL", "CAN", "CEU"] {
        v.push(unit(&[("loc", loc), ("red1", if loc == "PEN" { "sym" } else { "none" }), ("red2", if loc == "BAL" { "sym" } else { "none" })]));
    }
    v
}

fn rn(name: &str) -> RenNrenCo2 {
    let d = Dom::Range(0.0, 10.0);
    RenNrenCo2 { ren: input(&format!("{}_ren", name), d), nren: input(&format!("{}_nren", name), d), co2: input(&format!("{}_co2", name), d) }
}

fn same_r(a: &RenNrenCo2, b: &RenNrenCo2) -> B {
    a.ren.ident(b.ren).and(a.nren.ident(b.nren)).and(a.co2.ident(b.co2))
}

fn key(f: &Factor) -> String {
    format!("{:?}.{:?}.{:?}.{:?}", f.carrier, f.source, f.dest, f.step)
}

pub fn scenario(u: &Unit) -> String {
    let user = UserWF {
        red1: if u.get("red1") == "sym" { Some(rn("user_red1")) } else { None },
        red2: if u.get("red2") == "sym" { Some(rn("user_red2")) } else { None },
    };
    // the user lines: (key, values)
    let mut file: Vec<(String, RenNrenCo2)> = vec![];
    let loc = u.get("loc");
    spec(false);
    let res = if !loc.is_empty() {
        let name = LOCS.iter().find(|(c, _)| *c == loc).unwrap().1;
        for f in &cte::CTE_LOCWF_RITE2014[name].wdata {
            file.push((key(f), f.factors()));
        }
        cte::wfactors_from_loc(name, &cte::CTE_LOCWF_RITE2014, user, cte::CTE_USERWF)
    } else {
        let mut text = String::from("#META CTE_FUENTE: usuario\n");
        for (i, code) in u.get("lines").split(',').enumerate() {
            let p: Vec<&str> = code.split('.').collect();
            let r = rn(&format!("l{}", i));
            text.push_str(&format!("{}, {}, {}, {}, {}, {}, {} # linea {}\n", carrier_name(p[0]), p[1], p[2], p[3], r.ren, r.nren, r.co2, i));
            file.push((format!("{}.{}.{}.{}", carrier_name(p[0]), p[1], p[2], p[3]), r));
        }
        cte::wfactors_from_str(&text, user, cte::CTE_USERWF)
    };
    spec(true);
    // which carriers of the file have a grid supply factor
    let file_carriers: Vec<String> = {
        let mut v: Vec<String> = file.iter().map(|x| x.0.split('.').next().unwrap().to_string()).collect();
        v.sort();
        v.dedup();
        v
    };
    let has_grid = |c: &str| file.iter().any(|x| x.0 == format!("{}.RED.SUMINISTRO.A", c)) || c == "EAMBIENTE" || c == "TERMOSOLAR";
    let unusable = file_carriers.iter().any(|c| !has_grid(c));
    let fp = match res {
        Ok(fp) => {
            ob("unusable-set-is-rejected", if unusable { f() } else { t() });
            fp
        }
        Err(e) => {
            // rejecting is for unusable sets only (a set without electricity is usable for a building without it:
            // the program writes such sets itself with --of)
            ob("rejected-only-if-unusable", if unusable { t() } else { f() });
            ob("rejected-with-MissingFactor", if err_kind(&e) == "err:MissingFactor" { t() } else { f() });
            return err_kind(&e).to_string();
        }
    };
    for f in &fp.wdata {
        rec_r(&format!("wf.{}", key(f)), &f.factors());
    }
    let find = |k: &str| fp.wdata.iter().find(|f| key(f) == k).map(|f| f.factors());
    let forced: Vec<&str> = {
        let mut v = vec!["EAMBIENTE.INSITU.SUMINISTRO.A", "EAMBIENTE.RED.SUMINISTRO.A", "TERMOSOLAR.INSITU.SUMINISTRO.A", "TERMOSOLAR.RED.SUMINISTRO.A"];
        if file_carriers.iter().any(|c| c == "ELECTRICIDAD") {
            v.push("ELECTRICIDAD.INSITU.SUMINISTRO.A");
        }
        v
    };
    let unit_r = RenNrenCo2 { ren: k(1.0), nren: k(0.0), co2: k(0.0) };
    // (1) forced factors
    for fk in &forced {
        ob(&format!("forced.{}=(1,0,0)", fk), find(fk).map(|r| same_r(&r, &unit_r)).unwrap_or(f()));
    }
    // (2) user lines that are not forced keep their values (first occurrence wins), except RED1/RED2 when a user value is given
    let mut seen: Vec<String> = vec![];
    for (kk, r) in &file {
        if seen.contains(kk) {
            continue;
        }
        seen.push(kk.clone());
        if forced.contains(&kk.as_str()) {
            continue;
        }
        let overridden = (kk == "RED1.RED.SUMINISTRO.A" && user.red1.is_some()) || (kk == "RED2.RED.SUMINISTRO.A" && user.red2.is_some());
        if overridden {
            continue;
        }
        ob(&format!("user-value-kept.{}", kk), find(kk).map(|x| same_r(&x, r)).unwrap_or(f()));
        // and `find` returns it
        let p: Vec<&str> = kk.split('.').collect();
        let got = fp.find(p[0].parse().unwrap(), p[1].parse().unwrap(), p[2].parse().unwrap(), p[3].parse().unwrap());
        ob(&format!("find-returns-user-value.{}", kk), got.map(|x| same_r(&x, r)).unwrap_or(f()));
    }
    // (3) defaults of export factors: step A = on-site supply factor, step B = the carrier's grid supply factor
    for c in ["ELECTRICIDAD", "EAMBIENTE", "TERMOSOLAR"] {
        let supply = find(&format!("{}.INSITU.SUMINISTRO.A", c));
        let grid = find(&format!("{}.RED.SUMINISTRO.A", c));
        for dest in ["A_RED", "A_NEPB"] {
            for (step, dflt) in [("A", supply), ("B", grid)] {
                let kk = format!("{}.INSITU.{}.{}", c, dest, step);
                let user_given = file.iter().find(|x| x.0 == kk).map(|x| x.1);
                let got = find(&kk);
                match (user_given, dflt, got) {
                    (Some(uv), _, Some(g)) => ob(&format!("export.{}=user", kk), same_r(&g, &uv)),
                    (None, Some(d), Some(g)) => ob(&format!("export.{}=default", kk), same_r(&g, &d)),
                    (None, None, None) => {}
                    _ => ob(&format!("export.{}.present", kk), f()),
                }
            }
        }
    }
    // (4) RED1 / RED2: user value > file value > built-in default
    for (c, uv, dv) in [("RED1", user.red1, cte::CTE_USERWF.red1), ("RED2", user.red2, cte::CTE_USERWF.red2)] {
        let kk = format!("{}.RED.SUMINISTRO.A", c);
        let filev = file.iter().find(|x| x.0 == kk).map(|x| x.1);
        let want = uv.or(filev).unwrap_or(dv);
        ob(&format!("{}=user>file>default", c), find(&kk).map(|g| same_r(&g, &want)).unwrap_or(f()));
    }
    // (5) every carrier of the prepared set has a grid supply factor; no duplicate keys were added
    let mut carriers: Vec<String> = fp.wdata.iter().map(|f| format!("{:?}", f.carrier)).collect();
    carriers.sort();
    carriers.dedup();
    for c in &carriers {
        ob(&format!("grid-factor.{}", c), if find(&format!("{}.RED.SUMINISTRO.A", c)).is_some() { t() } else { f() });
    }
    // (6) preparing an already prepared set changes nothing
    spec(false);
    let again = fp.clone().set_user_wfactors(user).normalize(&cte::CTE_USERWF);
    spec(true);
    match again {
        Ok(fp2) => {
            ob("idempotent.len", if fp2.wdata.len() == fp.wdata.len() { t() } else { f() });
            for (i, (a, b)) in fp.wdata.iter().zip(fp2.wdata.iter()).enumerate() {
                ob(&format!("idempotent[{}]", i), if key(a) == key(b) && a.comment == b.comment { same_r(&a.factors(), &b.factors()) } else { f() });
            }
        }
        Err(_) => ob("idempotent.ok", f()),
    }
    // (7) completeness: a building that uses every carrier of the set, with on-site production, export to
    //     non-EPB uses and the grid and (when possible) cogeneration is evaluated without MissingFactor
    let mut text = String::new();
    for c in &carriers {
        text.push_str(&format!("CONSUMO, CAL, {}, 10, 20\n", c));
    }
    if carriers.iter().any(|c| c == "ELECTRICIDAD") {
        text.push_str("PRODUCCION, EL_INSITU, 50, 5\nCONSUMO, NEPB, ELECTRICIDAD, 5, 5\n");
        text.push_str("PRODUCCION, EL_COGEN, 10, 10\n");
        let fuel = carriers.iter().find(|c| *c != "ELECTRICIDAD" && *c != "EAMBIENTE" && *c != "TERMOSOLAR").unwrap();
        text.push_str(&format!("CONSUMO, COGEN, {}, 30, 30\n", fuel));
    }
    text.push_str("PRODUCCION, EAMBIENTE, 100, 100\nPRODUCCION, TERMOSOLAR, 100, 100\nCONSUMO, NEPB, EAMBIENTE, 5, 5\n");
    spec(false);
    let r = text.parse::<Components>().and_then(|c| energy_performance(&c, &fp, input("kexp", Dom::Range(0.0, 1.0)), k(10.0), false));
    spec(true);
    match r {
        Ok(_) => ob("complete:no-missing-factor", t()),
        Err(e) => ob("complete:no-missing-factor", if err_kind(&e) == "err:MissingFactor" { f() } else { t() }),
    }
    "ok".into()
}
