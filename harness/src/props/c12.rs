//! C12 — on-site electricity is used first; load matching can only lower self-use.

use crate::by_name;
use crate::common::*;

pub fn units(tier: &str, _seed: u64) -> Vec<String> {
    let shapes: &[&str] = &[
        "U:CAL:ELECTRICIDAD;P:EL_INSITU;P:EL_COGEN;U:COGEN:GASNATURAL",
        "U:CAL:ELECTRICIDAD;P:EL_INSITU",
        "U:ACS:ELECTRICIDAD;P:EL_COGEN;U:COGEN:BIOMASA",
        "U:CAL:ELECTRICIDAD;U:ILU:ELECTRICIDAD;P:EL_INSITU;P:EL_COGEN;U:COGEN:GASNATURAL;U:NEPB:ELECTRICIDAD",
    ];
    let mut v = vec![];
    for s in shapes {
        v.push(unit(&[("shape", s), ("n", "1"), ("fs", "PEN")]));
    }
    // long series (symbolic first step, fixed constants afterwards): the factor is the same function at every step,
    // whatever the number of steps
    v.push(unit(&[("shape", shapes[1]), ("n", "13"), ("win", "1"), ("fs", "PEN"), ("bud", "60")]));
    v.push(unit(&[("shape", shapes[0]), ("n", "24"), ("win", "1"), ("fs", "PEN"), ("bud", "60")]));
    // fractions of a Wh: the factor is the same function of production / use
    v.push(unit(&[("shape", shapes[1]), ("n", "1"), ("fs", "PEN"), ("dom", "0.00001:0.01")]));
    v.push(unit(&[("shape", shapes[0]), ("n", "1"), ("fs", "PEN"), ("dom", "0.0001:1")]));
    if tier == "thorough" {
        for s in &shapes[..3] {
            v.push(unit(&[("shape", s), ("n", "2"), ("fs", "PEN")]));
        }
        v.push(unit(&[("shape", "U:CAL:ELECTRICIDAD;P:EL_INSITU;2/P:EL_INSITU;P:EL_COGEN;3/P:EL_COGEN;U:COGEN:GASNATURAL"), ("n", "1"), ("fs", "PEN")]));
    }
    v
}

pub fn scenario(u: &Unit) -> String {
    let e = match prepare(u) {
        Ok(e) => e,
        Err(s) => return s,
    };
    // the same inputs without and with load matching, in one path context
    let ep0 = match evaluate_with(&e, &e.fp, e.kexp, e.area, false) {
        Ok(x) => x,
        Err(s) => return s,
    };
    let ep1 = match evaluate_with(&e, &e.fp, e.kexp, e.area, true) {
        Ok(x) => x,
        Err(s) => return s,
    };
    rec_ep("off", &ep0);
    rec_ep("lm", &ep1);
    let (b0, b1) = match (by_name!(ep0.balance_cr, "ELECTRICIDAD"), by_name!(ep1.balance_cr, "ELECTRICIDAD")) {
        (Some(a), Some(b)) => (a, b),
        _ => return "ok:no-electricity".into(),
    };
    let one = k(1.0);
    for t in 0..e.n {
        let tag = |s: &str| format!("{}[{}]", s, t);
        // declared PV, CHP and EPB use of the step (sums in declaration order, as the code folds them)
        let (mut p, mut c, mut us) = (None::<F>, None::<F>, k(0.0));
        for l in &e.lines {
            let v = line_value(l, t);
            match (l.kind, l.a.as_str(), l.b.as_str()) {
                ('P', "EL_INSITU", _) => p = Some(p.map(|x| x + v).unwrap_or(v)),
                ('P', "EL_COGEN", _) => c = Some(c.map(|x| x + v).unwrap_or(v)),
                ('U', srv, "ELECTRICIDAD") if srv != "NEPB" && srv != "COGEN" => us = us + v,
                _ => {}
            }
        }
        ob(&tag("use=declared"), b0.used.epus_t[t].ident(us));
        for (mode, b) in [("off", b0), ("lm", b1)] {
            let f = b.f_match[t];
            let m = |s: &str| format!("{}.{}[{}]", mode, s, t);
            let e_pv = by_name!(b.prod.epus_by_src_t, "EL_INSITU").map(|v| v[t]);
            let e_chp = by_name!(b.prod.epus_by_src_t, "EL_COGEN").map(|v| v[t]);
            match (p, c) {
                (Some(p), Some(c)) => {
                    // priority: PV first, CHP on what is left
                    let m1 = p.min_(us);
                    let left = us - m1;
                    let m2 = c.min_(left);
                    ob(&m("pv=f*min(pv,use)"), e_pv.map(|x| x.ident(m1 * f)).unwrap_or(crate::common::f()));
                    ob(&m("chp=f*min(chp,use-pv_used)"), e_chp.map(|x| x.ident(m2 * f)).unwrap_or(crate::common::f()));
                    // cogeneration is only used once PV is exhausted: if CHP is used, PV was fully allocated
                    ob(&m("chp_used=>pv_exhausted"), k(0.0).lt_(m2).implies(m1.ident(p)));
                    ob(&m("chp_alloc<=use-pv_alloc"), m2.le_(left));
                }
                (Some(p), None) => {
                    ob(&m("pv=f*min(use,pv)"), e_pv.map(|x| x.approx(us.min_(p) * f, 3.0, us)).unwrap_or(crate::common::f()));
                }
                (None, Some(c)) => {
                    ob(&m("chp=f*min(use,chp)"), e_chp.map(|x| x.approx(us.min_(c) * f, 3.0, us)).unwrap_or(crate::common::f()));
                }
                (None, None) => {}
            }
            // the reported total used production never exceeds the EPB use nor the production
            ob(&m("epus<=use"), b.prod.epus_t[t].le_(b.used.epus_t[t]));
            ob(&m("epus<=prod"), b.prod.epus_t[t].le_(b.prod.t[t]));
            ob(&m("epus>=0"), k(0.0).le_(b.prod.epus_t[t]));
            // matching factor
            if mode == "off" {
                ob(&m("f=1"), f.ident(one));
            } else {
                ob(&m("0.5<=f<=1"), k(0.5).le_(f).and(f.le_(one)));
                let prod = b.prod.t[t];
                let x = prod / us;
                let formula = (x + one / x - one) / (x + one / x);
                // x = production/use (1 when either is zero)
                let zero_case = us.le_(k(0.0)).or(prod.le_(k(0.0)));
                ob(&m("f=formula"), zero_case.clone().or(f.ident(formula)));
                ob(&m("f=1_if_zero"), zero_case.implies(f.ident(one)));
            }
        }
        // load matching never increases self-use nor decreases grid delivery
        ob(&tag("epus(lm)<=epus(off)"), b1.prod.epus_t[t].le_(b0.prod.epus_t[t]));
        ob(&tag("del.grid(lm)>=del.grid(off)"), b0.del.grid_t[t].le_(b1.del.grid_t[t]));
        ob(&tag("exp(lm)>=exp(off)"), b0.exp.t[t].le_(b1.exp.t[t]));
    }
    "ok".into()
}
