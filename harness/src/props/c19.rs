//! C19 — CLI options beat file metadata, which beats defaults; bad values are refused.
//! Process mode: the *binary* built from the lifted tree runs as a child on placeholder numbers
//! (`--kexp '?kopt:w'`, `#META CTE_AREAREF: ?ameta:w`); the native replay runs the real binary on decimals.

use crate::common::*;
use std::process::Command;
use std::sync::atomic::{AtomicUsize, Ordering};

static COUNTER: AtomicUsize = AtomicUsize::new(0);

pub fn units(tier: &str, _seed: u64) -> Vec<String> {
    let mut v = vec![];
    // (k option, k metadata, area option, area metadata): - absent, s symbolic number, x non-numeric text
    let combos: &[&str] = &["----", "s---", "-s--", "ss--", "--s-", "---s", "--ss", "ssss", "-x--", "---x", "sx--", "--sx", "x---", "--x-", "n---", "-n--", "--n-", "---n", "i---"];
    for c in combos {
        v.push(unit(&[("ka", c), ("loc", "cli"), ("red1", "none")]));
    }
    // source of the factors: file > -l > metadata > nothing; RED1 from option / metadata / both
    for (loc, red1) in [("meta", "none"), ("none", "none"), ("file+meta", "none"), ("cli+meta", "none"), ("cli", "cli"), ("cli", "meta"), ("cli", "both"), ("meta", "both"), ("file", "cli"), ("file", "meta"), ("file+meta", "both")] {
        v.push(unit(&[("ka", "----"), ("loc", loc), ("red1", red1)]));
    }
    // the braces spelling of a factor in the metadata; legacy metadata names with an option that overrides them
    v.push(unit(&[("ka", "----"), ("loc", "cli"), ("red1", "meta"), ("sp", "braces")]));
    v.push(unit(&[("ka", "ssss"), ("loc", "cli"), ("red1", "none"), ("legacy", "1")]));
    v.push(unit(&[("ka", "-s-s"), ("loc", "cli"), ("red1", "none"), ("legacy", "1")]));
    if tier == "thorough" {
        for c in ["sxss", "ssxs", "sssx", "xsss", "s-s-", "-s-s"] {
            for loc in ["meta", "file+meta"] {
                v.push(unit(&[("ka", c), ("loc", loc), ("red1", "both")]));
            }
        }
    }
    v
}

/// token for a command-line / metadata number: a placeholder the child turns into an input (lifted),
/// or the decimal rendering of the replayed value (native)
fn ptok(name: &str) -> String {
    if <F as Scalar>::LIFTED {
        format!("?{}:w", name)
    } else {
        format!("{}", input(name, Dom::Range(-10.0, 1.0e7)))
    }
}
fn ftok(name: &str) -> String {
    if <F as Scalar>::LIFTED {
        format!("?{}:f", name)
    } else {
        format!("{}", input(name, Dom::Range(0.0, 10.0)))
    }
}

fn first_num_after(text: &str, key: &str) -> Option<F> {
    let i = text.find(key)?;
    let rest = &text[i + key.len()..];
    let tok: String = rest.trim_start_matches(|c: char| c == ' ' || c == ':' || c == '"' || c == '=').chars().take_while(|c| !c.is_whitespace() && *c != ',' && *c != '"' && *c != '<').collect();
    tok.parse::<F>().ok()
}

pub fn scenario(u: &Unit) -> String {
    let ka: Vec<char> = u.get("ka").chars().collect();
    let (kopt, kmeta, aopt, ameta) = (ka[0], ka[1], ka[2], ka[3]);
    let loc = u.get("loc");
    let red1 = u.get("red1");
    let dir = std::env::temp_dir().join(format!("verif-c19-{}-{}", std::process::id(), COUNTER.fetch_add(1, Ordering::Relaxed)));
    let _ = std::fs::create_dir_all(&dir);
    let p = |f: &str| dir.join(f).to_string_lossy().to_string();
    // ---- components file
    let mut comps = String::new();
    match kmeta {
        's' if u.get("legacy") == "1" => comps.push_str(&format!("#CTE_kexp: {}\n", ptok("kmeta"))),
        's' => comps.push_str(&format!("#META CTE_KEXP: {}\n", ptok("kmeta"))),
        'x' => comps.push_str("#META CTE_KEXP: mucho\n"),
        'n' => comps.push_str("#META CTE_KEXP: NaN\n"),
        _ => {}
    }
    match ameta {
        's' if u.get("legacy") == "1" => comps.push_str(&format!("#CTE_Area_ref: {}\n", ptok("ameta"))),
        's' => comps.push_str(&format!("#META CTE_AREAREF: {}\n", ptok("ameta"))),
        'x' => comps.push_str("#META CTE_AREAREF: grande\n"),
        'n' => comps.push_str("#META CTE_AREAREF: nan\n"),
        _ => {}
    }
    if loc.contains("meta") {
        comps.push_str("#META CTE_LOCALIZACION: CANARIAS\n");
    }
    if red1 == "meta" || red1 == "both" {
        if u.get("sp") == "braces" {
            comps.push_str(&format!("#META CTE_RED1: {{ ren: {}, nren: {}, co2: {} }}\n", ftok("r1m_ren"), ftok("r1m_nren"), ftok("r1m_co2")));
        } else {
            comps.push_str(&format!("#META CTE_RED1: {}, {}, {}\n", ftok("r1m_ren"), ftok("r1m_nren"), ftok("r1m_co2")));
        }
    }
    comps.push_str("CONSUMO, CAL, ELECTRICIDAD, 100\nPRODUCCION, EL_INSITU, 150\nCONSUMO, ACS, RED1, 50\n");
    std::fs::write(p("c.csv"), &comps).unwrap();
    std::fs::write(p("f.csv"), "#META CTE_FUENTE: archivo\nELECTRICIDAD, RED, SUMINISTRO, A, 0.5, 2.0, 0.4\nRED1, RED, SUMINISTRO, A, 0.25, 1.0, 0.2\n").unwrap();
    // the output files already exist and are longer than anything the program writes
    let old_content = "contenido anterior del archivo, que debe desaparecer\n".repeat(2000);
    for fname in ["out.csv", "out.json", "out.xml", "out.txt"] {
        std::fs::write(p(fname), &old_content).unwrap();
    }
    // ---- command line
    let mut args: Vec<String> = vec!["-c".into(), p("c.csv"), "--oc".into(), p("out.csv"), "--json".into(), p("out.json"), "--xml".into(), p("out.xml"), "--txt".into(), p("out.txt")];
    if loc.starts_with("cli") {
        args.push("-l".into());
        args.push("PENINSULA".into());
    }
    if loc.starts_with("file") {
        args.push("-f".into());
        args.push(p("f.csv"));
    }
    match kopt {
        's' => {
            args.push(format!("--kexp={}", ptok("kopt")));
        }
        'x' => {
            args.push("--kexp".into());
            args.push("mucho".into());
        }
        // spellings that the number parser accepts but that are not numbers in [0, 1]
        'n' => args.push("--kexp=nan".into()),
        'i' => args.push("--kexp=inf".into()),
        _ => {}
    }
    match aopt {
        's' => {
            args.push(format!("--arearef={}", ptok("aopt")));
        }
        'x' => {
            args.push("--arearef".into());
            args.push("grande".into());
        }
        'n' => args.push("--arearef=NaN".into()),
        _ => {}
    }
    if red1 == "cli" || red1 == "both" {
        args.push("--red1".into());
        args.push(ftok("r1c_ren"));
        args.push(ftok("r1c_nren"));
        args.push(ftok("r1c_co2"));
    }
    // ---- run the program
    let bin = std::env::var(if <F as Scalar>::LIFTED { "VERIF_LIFTED_CLI" } else { "VERIF_REAL_CLI" }).expect("CLI binary path");
    let mut cmd = Command::new(&bin);
    cmd.args(&args);
    if <F as Scalar>::LIFTED {
        let w: std::collections::BTreeMap<String, String> = verif_witness();
        std::fs::write(p("w.json"), serde_json::to_string(&w).unwrap()).unwrap();
        cmd.env("VERIF_PROC_WITNESS", p("w.json")).env("VERIF_PROC_OUT", p("snap.json"));
    }
    let outp = match cmd.output() {
        Ok(o) => o,
        Err(e) => return format!("VERIF_RT_UNSUPPORTED: cannot run {}: {}", bin, e),
    };
    let code = outp.status.code();
    let stdout = String::from_utf8_lossy(&outp.stdout).to_string();
    if <F as Scalar>::LIFTED {
        match std::fs::read_to_string(p("snap.json")) {
            Ok(js) => {
                if let Err(e) = verif_install(&js) {
                    return format!("VERIF_RT_UNSUPPORTED: {}", e);
                }
            }
            Err(_) => {
                // no snapshot: the child never touched a number (e.g. refused a non-numeric option at once), or it
                // died; only the second case is a finding
                if code.is_none() {
                    let _ = std::fs::remove_dir_all(&dir);
                    ob("program-ends-by-itself", f());
                    return "signal".into();
                }
            }
        }
    }
    <F as Scalar>::note(format!("cteepbd {}", args.join(" ")));
    let oc = std::fs::read_to_string(p("out.csv")).ok().filter(|c| *c != old_content);
    // a file that still has its old content was not written
    let fresh = |f: &str| std::fs::read_to_string(p(f)).ok().filter(|c| *c != old_content);
    let json = fresh("out.json");
    let (xml, txt) = (fresh("out.xml"), fresh("out.txt"));
    let _ = std::fs::remove_dir_all(&dir);
    let w = Dom::Range(-10.0, 1.0e7);
    let val = |given: char, name: &str| -> Option<F> { if given == 's' { Some(input(name, w)) } else { None } };
    let (ko, km, ao, am) = (val(kopt, "kopt"), val(kmeta, "kmeta"), val(aopt, "aopt"), val(ameta, "ameta"));
    let valid_k = |x: F| k(0.0).le_(x).and(x.le_(k(1.0)));
    let valid_a = |x: F| k(1.0e-3).lt_(x);
    let nonnum = [kopt, kmeta, aopt, ameta].iter().any(|c| ['x', 'n', 'i'].contains(c));
    let has_factors = loc != "none";
    let code = match code {
        Some(c) => c,
        None => {
            ob("program-ends-by-itself", f());
            return "signal".into();
        }
    };
    ob("exit-code-is-deliberate", if [0, 1, 64, 65, 73, 74].contains(&code) { t() } else { f() });
    // effective values: option, else metadata, else default
    let k_eff = ko.or(km).unwrap_or(k(0.0));
    let a_eff = ao.or(am).unwrap_or(k(1.0));
    let (k_orig, a_orig) = (if ko.is_some() { "usuario" } else if km.is_some() { "metadatos" } else { "predefinido" }, if ao.is_some() { "usuario" } else if am.is_some() { "metadatos" } else { "predefinido" });
    if code != 0 {
        // refusals
        ob("no-result-on-error", if json.is_none() { t() } else { f() });
        if !has_factors {
            ob("no-factors=>usage-error", if code == 64 { t() } else { f() });
            return format!("exit:{}", code);
        }
        if code == 65 && !nonnum {
            // some given value is out of range (the program validates every given value, options and metadata)
            let mut some_invalid = f();
            for x in [ko, km].into_iter().flatten() {
                some_invalid = some_invalid.or(valid_k(x).not());
            }
            for x in [ao, am].into_iter().flatten() {
                some_invalid = some_invalid.or(valid_a(x).not());
            }
            ob("refused=>some-given-value-invalid", some_invalid);
        } else if !(code == 65 && nonnum) {
            ob("unexpected-exit-code", f());
        }
        return format!("exit:{}", code);
    }
    let bad = |c: char| ['x', 'n', 'i'].contains(&c);
    // accepted: the effective values are valid, and non-numeric text was not accepted anywhere it is effective
    ob("non-numeric-effective-value-is-refused", if bad(kopt) || bad(aopt) || (bad(kmeta) && kopt == '-') || (bad(ameta) && aopt == '-') { f() } else { t() });
    ob("accepted=>k_exp-in-range", valid_k(k_eff));
    ob("accepted=>area-in-range", valid_a(a_eff));
    // echoed with origin
    let echo = |label: &str, orig: &str, want: F, dec: i32, name: &str| {
        let key = format!("{} ({})", label, orig);
        match first_num_after(&stdout, &format!("{} [", key)).or_else(|| stdout.lines().find(|l| l.starts_with(&key)).and_then(|l| l.rsplit(' ').next().and_then(|t| t.trim().parse::<F>().ok()))) {
            Some(g) => ob(&format!("echo.{}", name), g.close_dec(want, dec, 1.0)),
            None => ob(&format!("echo.{}.origin-{}", name, orig), f()),
        }
    };
    echo("Área de referencia", a_orig, a_eff, 2, "area");
    echo("Factor de exportación", k_orig, k_eff, 1, "kexp");
    let want_fp = if loc.starts_with("file") { "Factores de paso (archivo)" } else if loc.starts_with("cli") { "Factores de paso (usuario): PENINSULA" } else { "Factores de paso (metadatos): CANARIAS" };
    ob("echo.factors-origin", if stdout.contains(want_fp) { t() } else { f() });
    // recorded in the emitted components
    match &oc {
        Some(text) => {
            match first_num_after(text, "#META CTE_AREAREF") {
                Some(g) => ob("oc.CTE_AREAREF", g.close_dec(a_eff, 2, 1.0)),
                None => ob("oc.CTE_AREAREF.present", f()),
            }
            match first_num_after(text, "#META CTE_KEXP") {
                Some(g) => ob("oc.CTE_KEXP", g.close_dec(k_eff, 1, 1.0)),
                None => ob("oc.CTE_KEXP.present", f()),
            }
        }
        None => ob("oc.written", f()),
    }
    // ... and they are what a reader of that file gets (the file is what a later evaluation starts from)
    if let Some(text) = &oc {
        use cteepbd::types::MetaVec;
        spec(false);
        let parsed = text.parse::<cteepbd::Components>();
        spec(true);
        match parsed {
            Ok(c) => {
                match c.get_meta_f32("CTE_AREAREF") {
                    Some(g) => ob("oc.read-back.CTE_AREAREF", g.close_dec(a_eff, 2, 1.0)),
                    None => ob("oc.read-back.CTE_AREAREF.present", f()),
                }
                match c.get_meta_f32("CTE_KEXP") {
                    Some(g) => ob("oc.read-back.CTE_KEXP", g.close_dec(k_eff, 1, 1.0)),
                    None => ob("oc.read-back.CTE_KEXP.present", f()),
                }
                let keys: Vec<&str> = c.meta.iter().map(|m| m.key.as_str()).collect();
                let mut uniq = keys.clone();
                uniq.sort();
                uniq.dedup();
                ob("oc.metadata-keys-unique", if uniq.len() == keys.len() { t() } else { f() });
            }
            Err(_) => ob("oc.parses", f()),
        }
    }
    // the RED1 factor given by option or metadata is recorded, at the three decimals of factors
    if red1 != "none" {
        let d = Dom::Range(0.0, 10.0);
        let want = if red1 == "cli" || red1 == "both" { [input("r1c_ren", d), input("r1c_nren", d), input("r1c_co2", d)] } else { [input("r1m_ren", d), input("r1m_nren", d), input("r1m_co2", d)] };
        let got: Vec<F> = oc
            .as_deref()
            .and_then(|text| text.lines().find(|l| l.starts_with("#META CTE_RED1")))
            .and_then(|l| l.split_once(':'))
            .map(|(_, v)| v.split(',').filter_map(|x| x.trim().parse::<F>().ok()).collect())
            .unwrap_or_default();
        if got.len() == 3 {
            for (i, nm) in ["ren", "nren", "co2"].iter().enumerate() {
                ob(&format!("oc.CTE_RED1.{}", nm), got[i].close_dec(want[i], 3, 1.0));
            }
        } else {
            ob("oc.CTE_RED1.present", f());
        }
    }
    // the results are computed with them
    match &json {
        Some(js) => {
            match first_num_after(js, "\"k_exp\"") {
                Some(g) => ob("json.k_exp", g.close_dec(k_eff, 6, 1.0)),
                None => ob("json.k_exp.present", f()),
            }
            match first_num_after(js, "\"arearef\"") {
                Some(g) => ob("json.arearef", g.close_dec(a_eff, 6, 1.0)),
                None => ob("json.arearef.present", f()),
            }
            // RED1 factor in the factor list of the result: option > metadata > (file | default)
            let wf = js.find("\"wfactors\"").map(|i| &js[i..]).unwrap_or("");
            if let Some(i) = wf.find("\"carrier\": \"RED1\"") {
                let seg = &wf[i..wf.len().min(i + 400)];
                let want: (F, F, F) = if red1 == "cli" || red1 == "both" {
                    (input("r1c_ren", Dom::Range(0.0, 10.0)), input("r1c_nren", Dom::Range(0.0, 10.0)), input("r1c_co2", Dom::Range(0.0, 10.0)))
                } else if red1 == "meta" || red1 == "both" {
                    (input("r1m_ren", Dom::Range(0.0, 10.0)), input("r1m_nren", Dom::Range(0.0, 10.0)), input("r1m_co2", Dom::Range(0.0, 10.0)))
                } else if loc.starts_with("file") {
                    (k(0.25), k(1.0), k(0.2))
                } else {
                    (k(0.0), k(1.3), k(0.3))
                };
                for (nm, wv) in [("ren", want.0), ("nren", want.1), ("co2", want.2)] {
                    match first_num_after(seg, &format!("\"{}\"", nm)) {
                        Some(g) => ob(&format!("json.RED1.{}", nm), g.close_dec(wv, 3, 1.0)),
                        None => ob(&format!("json.RED1.{}.present", nm), f()),
                    }
                }
            } else {
                ob("json.RED1.present", f());
            }
        }
        None => ob("json.written", f()),
    }
    // the files the program writes: the XML document is well formed and states k_exp and the area, the text file is the
    // report that was printed, the JSON document is valid and reads back as a result (natively: in the symbolic build
    // numbers are printed as placeholders)
    match &xml {
        Some(x) => {
            ob("xml-file.well-formed", if super::c17::xml_well_formed(x).is_ok() { t() } else { f() });
            match x.split("<kexp>").nth(1).and_then(|r| r.split("</kexp>").next()).and_then(|v| v.trim().parse::<F>().ok()) {
                Some(g) => ob("xml-file.kexp", g.close_dec(k_eff, 2, 1.0)),
                None => ob("xml-file.kexp.present", f()),
            }
            match x.split("<AreaRef>").nth(1).and_then(|r| r.split("</AreaRef>").next()).and_then(|v| v.trim().parse::<F>().ok()) {
                Some(g) => ob("xml-file.AreaRef", g.close_dec(a_eff, 2, 1.0)),
                None => ob("xml-file.AreaRef.present", f()),
            }
        }
        None => ob("xml-file.written", f()),
    }
    match &txt {
        Some(x) => ob("txt-file=printed-report", if !x.trim().is_empty() && stdout.contains(x.trim()) { t() } else { f() }),
        None => ob("txt-file.written", f()),
    }
    if !<F as Scalar>::LIFTED {
        if let Some(js) = &json {
            ob("json-file.reads-back", if serde_json::from_str::<cteepbd::types::EnergyPerformance>(js).is_ok() { t() } else { f() });
        }
    }
    match first_num_after(&stdout, "k_exp =") {
        Some(g) => ob("plain.k_exp", g.close_dec(k_eff, 2, 1.0)),
        None => ob("plain.k_exp.present", f()),
    }
    match first_num_after(&stdout, "Area_ref =") {
        Some(g) => ob("plain.Area_ref", g.close_dec(a_eff, 2, 1.0)),
        None => ob("plain.Area_ref.present", f()),
    }
    "exit:0".into()
}

#[cfg(feature = "lifted")]
fn verif_witness() -> std::collections::BTreeMap<String, String> {
    verif_rt::dag::with(|c| c.witness.iter().map(|(k, v)| (k.clone(), format!("{:08x}", v))).collect())
}
#[cfg(not(feature = "lifted"))]
fn verif_witness() -> std::collections::BTreeMap<String, String> {
    Default::default()
}
#[cfg(feature = "lifted")]
fn verif_install(js: &str) -> Result<(), String> {
    verif_rt::procmode::install(js)
}
#[cfg(not(feature = "lifted"))]
fn verif_install(_js: &str) -> Result<(), String> {
    Ok(())
}
