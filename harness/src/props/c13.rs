//! C13 — renewable energy ratios are proper fractions and perimeters are nested.

use crate::common::*;

pub fn units(tier: &str, seed: u64) -> Vec<String> {
    let shapes: &[&str] = &[
        "U:CAL:ELECTRICIDAD",
        "U:CAL:ELECTRICIDAD;P:EL_INSITU",
        "U:CAL:GASNATURAL;U:ACS:BIOMASA",
        "1/U:ACS:ELECTRICIDAD;1/U:ACS:EAMBIENTE",
        "U:ACS:TERMOSOLAR;P:TERMOSOLAR;U:CAL:RED1",
        "U:ACS:ELECTRICIDAD;P:EL_COGEN;U:COGEN:BIOMASA",
        "U:ILU:ELECTRICIDAD;P:EL_INSITU;U:NEPB:ELECTRICIDAD",
        // fossil cogeneration whose surplus goes to non-EPB uses and to the grid
        "U:ACS:ELECTRICIDAD;P:EL_COGEN;U:COGEN:GASNATURAL;U:NEPB:ELECTRICIDAD;U:CAL:BIOMASA",
    ];
    let mut v = vec![];
    for s in shapes {
        v.push(unit(&[("shape", s), ("n", "1"), ("fs", "PEN"), ("k", "0"), ("lm", "0")]));
    }
    v.push(unit(&[("shape", shapes[1]), ("n", "1"), ("fs", "CAN"), ("k", "0"), ("lm", "1")]));
    // a seed-selected slice of the block catalogue
    for s in catalogue(seed ^ 0xC13, if tier == "thorough" { 12 } else { 3 }, &[]).iter() {
        v.push(unit(&[("shape", s), ("n", "1"), ("fs", "PEN"), ("k", "0"), ("lm", "0"), ("bud", "90")]));
    }
    if tier == "thorough" {
        for s in shapes {
            for fs in ["BAL", "CAN", "CEU"] {
                v.push(unit(&[("shape", s), ("n", "1"), ("fs", fs), ("k", "0"), ("lm", "1"), ("bud", "900")]));
            }
            v.push(unit(&[("shape", s), ("n", "2"), ("fs", "PEN"), ("k", "0"), ("lm", "0"), ("bud", "900")]));
        }
    }
    v
}

pub fn scenario(u: &Unit) -> String {
    let e = match prepare(u) {
        Ok(e) => e,
        Err(s) => return s,
    };
    let ep = match evaluate(&e) {
        Ok(x) => x,
        Err(s) => return s,
    };
    rec_ep("ep", &ep);
    let b = &ep.balance.we.b;
    let (ren, nren) = (b.ren, b.nren);
    let tot = ren + nren;
    let zero = k(0.0);
    let one = k(1.0);
    // magnitude of the inputs: "total primary energy above rounding noise"
    let mut mag = zero;
    for l in &e.lines {
        for tt in 0..e.n {
            mag = mag + line_value(l, tt).abs_();
        }
    }
    let noise = k(1.0e-3) * mag;
    let above = noise.le_(tot).and(zero.lt_(tot));
    // the perimeters are sums in which large terms may cancel (production that is exported again, the input of a
    // cogenerator whose electricity is exported): the comparisons allow the rounding of those terms (factors <= 3,
    // a few dozen roundings) relative to the total, on top of 1e-5; with `above` that is at most about 1e-2 and is
    // 1e-5 when nothing cancels
    let cond = k(96.0 * f32::EPSILON) * mag;
    let eps = k(1.0e-5) + cond / tot;
    ob("rer=ren/(ren+nren)", tot.eq_(zero).or(ep.rer.ident(ren / tot)));
    ob("tot=0=>rer=0", tot.eq_(zero).implies(ep.rer.ident(zero)));
    ob("ren>=0", above.clone().implies((zero - cond).le_(ren)));
    ob("nren>=0", above.clone().implies((zero - cond).le_(nren)));
    ob("0<=rer<=1", above.clone().implies((zero - eps).le_(ep.rer).and(ep.rer.le_(one + eps))));
    ob("0<=rer_onst", above.clone().implies((zero - eps).le_(ep.rer_onst)));
    ob("rer_onst<=rer_nrb", above.clone().implies(ep.rer_onst.le_(ep.rer_nrb + eps)));
    ob("rer_nrb<=rer", above.implies(ep.rer_nrb.le_(ep.rer + eps)));
    "ok".into()
}
