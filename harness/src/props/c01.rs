//! C01 — energy is conserved per carrier and time step (DESIGN.md section 4, C01).

use crate::common::*;
use cteepbd::types::*;

pub fn units(tier: &str, seed: u64) -> Vec<String> {
    let mut v = vec![];
    let core: &[&str] = &[
        // grid only
        "U:CAL:ELECTRICIDAD",
        // PV against one use (PV <, =, > use arise from the values)
        "U:CAL:ELECTRICIDAD;P:EL_INSITU",
        // PV + non-EPB use
        "U:ILU:ELECTRICIDAD;P:EL_INSITU;U:NEPB:ELECTRICIDAD",
        // PV + CHP priority
        "U:CAL:ELECTRICIDAD;P:EL_INSITU;P:EL_COGEN;U:COGEN:GASNATURAL",
        // CHP only with NEPB
        "U:ACS:ELECTRICIDAD;P:EL_COGEN;U:COGEN:GASNATURAL;U:NEPB:ELECTRICIDAD",
        // heat pump with partial declared ambient production
        "1/U:ACS:ELECTRICIDAD;1/U:ACS:EAMBIENTE;1/P:EAMBIENTE",
        // solar thermal with declared production (surplus possible)
        "U:ACS:TERMOSOLAR;P:TERMOSOLAR;U:ACS:GASNATURAL",
        // two services on one carrier with PV
        "U:CAL:ELECTRICIDAD;U:REF:ELECTRICIDAD;P:EL_INSITU",
        // two PV lines (same source) and a fuel
        "U:VEN:ELECTRICIDAD;P:EL_INSITU;2/P:EL_INSITU;U:CAL:BIOMASA",
    ];
    for s in core {
        for lm in ["0", "1"] {
            v.push(unit(&[("shape", s), ("n", "1"), ("lm", lm), ("fs", "PEN")]));
        }
    }
    for s in &core[1..3] {
        v.push(unit(&[("shape", s), ("n", "2"), ("lm", "0"), ("fs", "PEN")]));
    }
    // very small energies (hourly series at dawn: fractions of a Wh): nothing in the method depends on an
    // absolute magnitude
    for s in [core[1], core[2], core[8]] {
        v.push(unit(&[("shape", s), ("n", "1"), ("lm", "0"), ("fs", "PEN"), ("dom", "0.00001:0.01")]));
    }
    v.push(unit(&[("shape", core[1]), ("n", "1"), ("lm", "1"), ("fs", "PEN"), ("dom", "0.00001:0.01")]));
    // a seed-selected slice of the block catalogue (rarely used services and carriers, unusual ids, several systems)
    for (i, s) in catalogue(seed ^ 0xC01, if tier == "thorough" { 16 } else { 4 }, &[]).iter().enumerate() {
        v.push(unit(&[("shape", s), ("n", "1"), ("lm", if i % 2 == 0 { "0" } else { "1" }), ("fs", "PEN"), ("bud", "90")]));
    }
    if tier == "thorough" {
        for s in core {
            for lm in ["0", "1"] {
                v.push(unit(&[("shape", s), ("n", "2"), ("lm", lm), ("fs", "CAN")]));
            }
        }
        let more: &[&str] = &[
            "U:CAL:ELECTRICIDAD;U:ACS:ELECTRICIDAD;P:EL_INSITU;P:EL_COGEN;U:COGEN:BIOMASA;U:NEPB:ELECTRICIDAD",
            "1/U:CAL:EAMBIENTE;2/U:ACS:EAMBIENTE;1/P:EAMBIENTE;2/P:EAMBIENTE;1/U:CAL:ELECTRICIDAD",
            "U:ACS:TERMOSOLAR;U:CAL:TERMOSOLAR;P:TERMOSOLAR",
        ];
        for s in more {
            for lm in ["0", "1"] {
                v.push(unit(&[("shape", s), ("n", "1"), ("lm", lm), ("fs", "PEN")]));
            }
        }
        v.push(unit(&[("shape", core[1]), ("n", "3"), ("lm", "0"), ("fs", "PEN")]));
    }
    v
}

fn ge0(x: F) -> B {
    k(0.0).le_(x)
}

pub fn scenario(u: &Unit) -> String {
    let e = match prepare(u) {
        Ok(e) => e,
        Err(s) => return s,
    };
    let ep = match evaluate(&e) {
        Ok(ep) => ep,
        Err(s) => return s,
    };
    rec_ep("ep", &ep);
    let n = e.n;
    // declared inputs per carrier, in the order the implementation sees them (stable sort by id)
    let mut order: Vec<usize> = (0..e.lines.len()).collect();
    order.sort_by_key(|&i| e.lines[i].id.unwrap_or(0));

    for (crname, b) in sorted_kv(ep.balance_cr.iter()) {
        let p = format!("{}", crname);
        let (used, prod, exp, del) = (&b.used, &b.prod, &b.exp, &b.del);
        for t in 0..n {
            let tag = |s: &str| format!("{}.{}[{}]", p, s, t);
            // (1) structural split of production, export and use
            ob(&tag("exp=prod-epus"), exp.t[t].ident(prod.t[t] - prod.epus_t[t]));
            ob(&tag("grid=exp-nepus"), exp.grid_t[t].ident(exp.t[t] - exp.nepus_t[t]));
            ob(&tag("del=use-epus"), del.grid_t[t].ident(used.epus_t[t] - prod.epus_t[t]));
            // (1') numeric closure: the parts add up to the whole (two roundings)
            ob_split(&tag("prod~epus+exp"), prod.t[t], prod.epus_t[t], exp.t[t]);
            ob_split(&tag("exp~nepus+grid"), exp.t[t], exp.nepus_t[t], exp.grid_t[t]);
            ob_split(&tag("use~epus+del"), used.epus_t[t], prod.epus_t[t], del.grid_t[t]);
            // (2) every flow is non-negative, exactly
            for (nm, x) in [
                ("used.epus", used.epus_t[t]),
                ("used.nepus", used.nepus_t[t]),
                ("used.cgnus", used.cgnus_t[t]),
                ("prod", prod.t[t]),
                ("prod.epus", prod.epus_t[t]),
                ("exp", exp.t[t]),
                ("exp.grid", exp.grid_t[t]),
                ("exp.nepus", exp.nepus_t[t]),
                ("del.grid", del.grid_t[t]),
                ("del.onst", del.onst_t[t]),
            ] {
                ob(&tag(&format!("{}>=0", nm)), ge0(x));
            }
            // (3) bounds
            ob(&tag("epus<=min(use,prod)"), prod.epus_t[t].le_(used.epus_t[t].min_(prod.t[t])));
            ob(&tag("exp.nepus<=nepus"), exp.nepus_t[t].le_(used.nepus_t[t]));
            // (4) per source
            let mut sum_src = k(0.0);
            let mut sum_epus_src = k(0.0);
            let nsrc = prod.by_src_t.len();
            for (src, v) in sorted_kv(prod.by_src_t.iter()) {
                let eu = match prod.epus_by_src_t.iter().find(|(s, _)| format!("{:?}", s) == src) {
                    Some((_, x)) => x[t],
                    None => {
                        ob(&tag(&format!("src.{}.has_epus", src)), <B as Logic>::f());
                        continue;
                    }
                };
                let ex = match exp.by_src_t.iter().find(|(s, _)| format!("{:?}", s) == src) {
                    Some((_, x)) => x[t],
                    None => {
                        ob(&tag(&format!("src.{}.has_exp", src)), <B as Logic>::f());
                        continue;
                    }
                };
                ob(&tag(&format!("src.{}.exp=prod-epus", src)), ex.ident(v[t] - eu));
                ob_split(&tag(&format!("src.{}.prod~epus+exp", src)), v[t], eu, ex);
                ob(&tag(&format!("src.{}.epus>=0", src)), ge0(eu));
                ob(&tag(&format!("src.{}.exp>=0", src)), ge0(ex));
                ob(&tag(&format!("src.{}.epus<=prod", src)), eu.le_(v[t]));
                sum_src = sum_src + v[t];
                sum_epus_src = sum_epus_src + eu;
            }
            if nsrc > 0 {
                let kk = nsrc as f32 + 2.0;
                ob(&tag("sum_src(prod)~prod"), sum_src.approx(prod.t[t], kk, prod.t[t]));
                // the total used never exceeds what the sources contribute (exact; the total may be
                // limited to the EPB use, so equality is not required), and the parts stay within production
                ob(&tag("epus<=sum_src(epus)"), prod.epus_t[t].le_(sum_epus_src));
                ob(&tag("sum_src(epus)<=sum_src(prod)"), sum_epus_src.le_(sum_src));
            }
            // (5) ties to the declared inputs (folded in the implementation's order)
            let mut d_epus = k(0.0);
            let mut d_nepus = k(0.0);
            let mut d_cgn = k(0.0);
            let mut d_prod: Vec<(String, F)> = vec![];
            let mut mag = k(0.0);
            for &i in &order {
                let l = &e.lines[i];
                let carrier_of_line = match l.kind {
                    'U' => l.b.clone(),
                    // auxiliary energy is electricity used by EPB services
                    'X' => "ELECTRICIDAD".to_string(),
                    'P' => match l.a.as_str() {
                        "EL_INSITU" | "EL_COGEN" => "ELECTRICIDAD".to_string(),
                        x => x.to_string(),
                    },
                    _ => continue,
                };
                if carrier_of_line != p {
                    continue;
                }
                let v = line_value(l, t);
                mag = mag + v;
                match (l.kind, l.a.as_str()) {
                    ('U', "NEPB") => d_nepus = d_nepus + v,
                    ('U', "COGEN") => d_cgn = d_cgn + v,
                    ('U', _) | ('X', _) => d_epus = d_epus + v,
                    ('P', src) => match d_prod.iter_mut().find(|(s, _)| s == src) {
                        Some((_, acc)) => *acc = *acc + v,
                        None => d_prod.push((src.to_string(), v)),
                    },
                    _ => {}
                }
            }
            let kk = e.lines.len() as f32 + 1.0;
            ob(&tag("used.epus=declared"), used.epus_t[t].approx(d_epus, kk, mag));
            ob(&tag("used.nepus=declared"), used.nepus_t[t].approx(d_nepus, kk, mag));
            ob(&tag("used.cgnus=declared"), used.cgnus_t[t].approx(d_cgn, kk, mag));
            // automatically completed EAMBIENTE / TERMOSOLAR production is not a declared input:
            // the tie is checked for electricity sources only (completion is C05's subject)
            if p == "ELECTRICIDAD" {
                for (src, dv) in &d_prod {
                    if let Some((_, x)) = prod.by_src_t.iter().find(|(s, _)| format!("{:?}", s) == *src) {
                        ob(&tag(&format!("prod.{}=declared", src)), x[t].approx(*dv, kk, mag));
                    } else {
                        ob(&tag(&format!("prod.{}=declared", src)), <B as Logic>::f());
                    }
                }
            }
        }
        // (6) annual values are the sums of the per-step values
        let an = |nm: &str, a: F, v: &[F]| {
            let s = <F as Scalar>::sum(v.iter().cloned());
            let m = <F as Scalar>::sum(v.iter().map(|x| x.abs_()));
            ob(&format!("{}.{}=sum_t", p, nm), a.approx(s, n as f32 + 1.0, m));
        };
        an("used.epus_an", used.epus_an, &used.epus_t);
        an("used.nepus_an", used.nepus_an, &used.nepus_t);
        an("used.cgnus_an", used.cgnus_an, &used.cgnus_t);
        an("prod.an", prod.an, &prod.t);
        an("prod.epus_an", prod.epus_an, &prod.epus_t);
        an("exp.grid_an", exp.grid_an, &exp.grid_t);
        an("exp.nepus_an", exp.nepus_an, &exp.nepus_t);
        an("del.grid_an", del.grid_an, &del.grid_t);
        an("del.onst_an", del.onst_an, &del.onst_t);
        an("del.cgn_an", del.cgn_an, &del.cgn_t);
        for (src, v) in sorted_kv(prod.by_src_t.iter()) {
            if let Some((_, a)) = prod.by_src_an.iter().find(|(s, _)| format!("{:?}", s) == src) {
                an(&format!("prod.by_src_an.{}", src), *a, v);
            }
        }
        for (src, v) in sorted_kv(prod.epus_by_src_t.iter()) {
            if let Some((_, a)) = prod.epus_by_src_an.iter().find(|(s, _)| format!("{:?}", s) == src) {
                an(&format!("prod.epus_by_src_an.{}", src), *a, v);
            }
        }
        for (src, v) in sorted_kv(exp.by_src_t.iter()) {
            if let Some((_, a)) = exp.by_src_an.iter().find(|(s, _)| format!("{:?}", s) == src) {
                an(&format!("exp.by_src_an.{}", src), *a, v);
            }
        }
        // exp.an is documented as nepus + grid
        ob(&format!("{}.exp.an=nepus+grid", p), exp.an.approx(exp.nepus_an + exp.grid_an, 2.0, exp.nepus_an + exp.grid_an));
        let _ = Carrier::ELECTRICIDAD;
    }
    "ok".to_string()
}
