//! C14 — more on-site renewable electricity never makes the building look worse.

use crate::common::*;
use cteepbd::*;

pub fn units(tier: &str, _seed: u64) -> Vec<String> {
    let shapes: &[&str] = &[
        "U:CAL:ELECTRICIDAD;P:EL_INSITU",
        "U:CAL:ELECTRICIDAD;U:ACS:GASNATURAL;P:EL_INSITU",
        "U:ILU:ELECTRICIDAD;P:EL_INSITU;U:NEPB:ELECTRICIDAD",
        "U:CAL:ELECTRICIDAD;P:EL_INSITU;P:EL_COGEN;U:COGEN:GASNATURAL",
    ];
    let mut v = vec![];
    for s in shapes {
        v.push(unit(&[("shape", s), ("n", "1"), ("fs", "PEN"), ("k", "sym"), ("lm", "0")]));
    }
    v.push(unit(&[("shape", shapes[0]), ("n", "1"), ("fs", "BAL"), ("k", "sym"), ("lm", "1")]));
    v.push(unit(&[("shape", shapes[0]), ("n", "1"), ("fs", "CAN"), ("k", "0"), ("lm", "0"), ("rer", "1")]));
    // load matching with two prioritised sources
    v.push(unit(&[("shape", shapes[3]), ("n", "1"), ("fs", "PEN"), ("k", "sym"), ("lm", "1")]));
    // RER with non-EPB electricity use next to other, non-renewable, energy: the surplus may be absorbed by the
    // non-EPB use in one building and reach the grid in the other
    v.push(unit(&[("shape", "U:ILU:ELECTRICIDAD;P:EL_INSITU;U:NEPB:ELECTRICIDAD;U:CAL:GASNATURAL"), ("n", "1"), ("fs", "PEN"), ("k", "0"), ("lm", "0"), ("rer", "1")]));
    v.push(unit(&[("shape", "U:CAL:ELECTRICIDAD;P:EL_INSITU;P:EL_COGEN;U:COGEN:BIOMASA;U:ACS:GASNATURAL"), ("n", "1"), ("fs", "PEN"), ("k", "0"), ("lm", "0"), ("rer", "1")]));
    if tier == "thorough" {
        for s in shapes {
            for fs in ["BAL", "CAN", "CEU"] {
                v.push(unit(&[("shape", s), ("n", "2"), ("fs", fs), ("k", "sym"), ("lm", "0")]));
            }
            v.push(unit(&[("shape", s), ("n", "1"), ("fs", "PEN"), ("k", "sym"), ("lm", "1")]));
            v.push(unit(&[("shape", s), ("n", "1"), ("fs", "PEN"), ("k", "0"), ("lm", "0"), ("rer", "1")]));
        }
    }
    v
}

pub fn scenario(u: &Unit) -> String {
    let lines = parse_shape(u.get("shape"));
    let n = u.n();
    let fp = match factors(u.get_or("fs", "PEN"), &carriers_of(&lines)) {
        Ok(x) => x,
        Err(e) => return err_kind(&e).to_string(),
    };
    let kexp = scalar_param(u, "k", "kexp", Dom::Range(0.0, 1.0), 0.0);
    let base_text = shape_text(&lines, n);
    // the same building with a non-negative increment of on-site electricity production at every step
    let more_text = {
        let mut s = String::new();
        let mut done = false;
        for l in &lines {
            let vals: Vec<String> = (0..n)
                .map(|t| {
                    let v = line_value(l, t);
                    if l.kind == 'P' && l.a == "EL_INSITU" && !done {
                        format!("{}", v + input(&format!("d_{}", t), Dom::Energy))
                    } else {
                        format!("{}", v)
                    }
                })
                .collect();
            if l.kind == 'P' && l.a == "EL_INSITU" {
                done = true;
            }
            s.push_str(&render_line(l, &vals));
            s.push('\n');
        }
        s
    };
    let run = |text: &str| {
        spec(false);
        let r = text.parse::<Components>().and_then(|cs| energy_performance(&cs, &fp, kexp, k(1.0), u.lm()));
        spec(true);
        r.map_err(|e| err_kind(&e).to_string())
    };
    let (a, b) = match (run(&base_text), run(&more_text)) {
        (Ok(a), Ok(b)) => (a, b),
        (Err(e), _) | (_, Err(e)) => return e,
    };
    rec_ep("base", &a);
    rec_ep("more", &b);
    // tolerance: a few roundings of the magnitudes involved (grid factor <= 3)
    let mut mag = k(0.0);
    for l in &lines {
        for t in 0..n {
            mag = mag + line_value(l, t).abs_();
        }
    }
    for t in 0..n {
        mag = mag + input(&format!("d_{}", t), Dom::Energy);
    }
    let tol = k(64.0 * f32::EPSILON * 4.0) * mag;
    let le = |name: &str, x: F, y: F| {
        // exactly monotone on the unchanged tree (lemma instances); the tolerant statement is the replay predicate
        ob_via(name, "monotone", x.le_(y), x.le_(y + tol));
    };
    le("we.a.nren", b.balance.we.a.nren, a.balance.we.a.nren);
    le("we.b.nren", b.balance.we.b.nren, a.balance.we.b.nren);
    le("we.a.co2", b.balance.we.a.co2, a.balance.we.a.co2);
    le("we.b.co2", b.balance.we.b.co2, a.balance.we.b.co2);
    le("del.grid", b.balance.del.grid, a.balance.del.grid);
    if let (Some(x), Some(y)) = (crate::by_name!(b.balance_cr, "ELECTRICIDAD"), crate::by_name!(a.balance_cr, "ELECTRICIDAD")) {
        for t in 0..n {
            le(&format!("el.del.grid_t[{}]", t), x.del.grid_t[t], y.del.grid_t[t]);
            le(&format!("el.exp_t[{}]>=", t), y.exp.t[t], x.exp.t[t]);
        }
    }
    if u.get("rer") == "1" {
        // rounding of the cancellation production - exported energy is magnified by 1/total: the tolerance is
        // 64 roundings of the magnitudes involved, relative to the total primary energy of the second building
        let tot = b.balance.we.b.ren + b.balance.we.b.nren;
        let tol_r = (k(64.0 * f32::EPSILON) * mag) / tot;
        ob("rer-not-lower", tot.le_(k(0.0)).or((a.rer - tol_r).le_(b.rer)));
    }
    "ok".into()
}
