//! C15 — the renewable share of DHW demand is a fraction that depends only on DHW supply.

use crate::common::*;
use cteepbd::*;

const MIXES: [&str; 17] = ["elpv", "hp", "hppv", "st", "red1", "bio", "bionrb", "biored1", "bioout", "nodem", "zerodem", "biogas", "bioout2", "elpvaux", "hppvaux", "bio2sys", "bio2sysd"];

pub fn units(tier: &str, _seed: u64) -> Vec<String> {
    let mut v = vec![];
    for m in MIXES {
        if m.ends_with("aux") {
            // closed forms with a cancellation (1 - aux / use): beyond the solver, kept for what they refute
            v.push(unit(&[("mix", m), ("n", "1"), ("extra", "none"), ("bud", "60")]));
        } else {
            v.push(unit(&[("mix", m), ("n", "1"), ("extra", "none")]));
        }
    }
    // invariance: non-EPB use, other services' non-electric use
    for m in ["elpv", "hp", "st", "bionrb"] {
        v.push(unit(&[("mix", m), ("n", "1"), ("extra", "nepb")]));
        v.push(unit(&[("mix", m), ("n", "1"), ("extra", "calgas")]));
    }
    for m in ["elpvaux", "hp"] {
        v.push(unit(&[("mix", m), ("n", "1"), ("extra", "nepbsame"), ("bud", "60")]));
    }
    v.push(unit(&[("mix", "elpv"), ("n", "1"), ("extra", "tagcal"), ("bud", "60")]));
    // the boiler whose output is declared also heats (same system id: consumption and output of another service)
    v.push(unit(&[("mix", "bioout"), ("n", "1"), ("extra", "samesys")]));
    v.push(unit(&[("mix", "bioout"), ("n", "1"), ("extra", "calgas")]));
    // scaling the whole building (by a power of two: exact)
    for m in ["hppv", "st", "bioout", "biored1"] {
        v.push(unit(&[("mix", m), ("n", "1"), ("extra", "scale"), ("scale", "1")]));
    }
    if tier == "thorough" {
        for m in MIXES {
            v.push(unit(&[("mix", m), ("n", "2"), ("extra", "both")]));
        }
    }
    v
}

/// the building of a mix: (components text, closed form of the fraction or None when an error is expected)
fn build(mix: &str, n: usize, extra: &str) -> (String, Option<F>) {
    let sc = if extra == "scaled" { k(4.0) } else { k(1.0) };
    // with auxiliaries the non-auxiliary share is computed as 1 - aux / use: its rounding error grows with aux / use,
    // so those mixes keep the auxiliaries below the consumption they serve (stated bound)
    let aux_mix = mix.ends_with("aux");
    let e = |nm: &str, t: usize| {
        let dom = match nm {
            "ax" if aux_mix => Dom::Range(0.01, 50.0),
            "el" if aux_mix => Dom::Range(50.0, 1.0e4),
            _ => Dom::EnergyPos,
        };
        sc * input(&format!("{}_{}", nm, t), dom)
    };
    let sum = |nm: &str| -> F { <F as Scalar>::sum((0..n).map(|t| e(nm, t))) };
    let row = |nm: &str| -> String { (0..n).map(|t| format!("{}", e(nm, t))).collect::<Vec<_>>().join(", ") };
    let rowf = |f: &dyn Fn(usize) -> F| -> String { (0..n).map(|t| format!("{}", f(t))).collect::<Vec<_>>().join(", ") };
    let mut s = String::new();
    // biomass factors of the regulatory set
    let fbio = k(1.003) / (k(1.003) + k(0.034));
    let closed: Option<F> = match mix {
        // direct electric heating of DHW + PV: demand = electricity use; renewable part = PV used on site
        "elpv" => {
            s.push_str(&format!("CONSUMO, ACS, ELECTRICIDAD, {}\nPRODUCCION, EL_INSITU, {}\nDEMANDA, ACS, {}\n", row("el"), row("pv"), row("el")));
            let used = <F as Scalar>::sum((0..n).map(|t| e("el", t).min_(e("pv", t))));
            Some(used / sum("el"))
        }
        // heat pump: demand = electricity + ambient heat
        "hp" | "hppv" => {
            s.push_str(&format!("1, CONSUMO, ACS, ELECTRICIDAD, {}\n1, CONSUMO, ACS, EAMBIENTE, {}\nDEMANDA, ACS, {}\n", row("el"), row("ma"), rowf(&|t| e("el", t) + e("ma", t))));
            let dem = <F as Scalar>::sum((0..n).map(|t| e("el", t) + e("ma", t)));
            if mix == "hppv" {
                s.push_str(&format!("PRODUCCION, EL_INSITU, {}\n", row("pv")));
                let used = <F as Scalar>::sum((0..n).map(|t| e("el", t).min_(e("pv", t))));
                Some((sum("ma") + used) / dem)
            } else {
                Some(sum("ma") / dem)
            }
        }
        // solar thermal + gas boiler with efficiency 0.9: demand = solar + 0.9 gas
        "st" => {
            s.push_str(&format!("CONSUMO, ACS, TERMOSOLAR, {}\nCONSUMO, ACS, GASNATURAL, {}\nDEMANDA, ACS, {}\n", row("ts"), row("gn"), rowf(&|t| e("ts", t) + k(0.9) * e("gn", t))));
            let dem = <F as Scalar>::sum((0..n).map(|t| e("ts", t) + k(0.9) * e("gn", t)));
            Some(sum("ts") / dem)
        }
        // district network with the default factors (0, 1.3, 0.3): nothing renewable
        "red1" => {
            s.push_str(&format!("CONSUMO, ACS, RED1, {}\nDEMANDA, ACS, {}\n", row("r1"), row("r1")));
            Some(k(0.0))
        }
        // biomass alone: covers the whole demand
        "bio" => {
            s.push_str(&format!("CONSUMO, ACS, BIOMASA, {}\nDEMANDA, ACS, {}\n", row("bm"), rowf(&|t| k(0.8) * e("bm", t))));
            Some(fbio)
        }
        // biomass + ambient heat (nearby): biomass covers what ambient heat does not
        "bionrb" => {
            s.push_str(&format!("CONSUMO, ACS, BIOMASA, {}\n2, CONSUMO, ACS, EAMBIENTE, {}\nDEMANDA, ACS, {}\n", row("bm"), row("ma"), rowf(&|t| k(0.8) * e("bm", t) + e("ma", t))));
            let dem = <F as Scalar>::sum((0..n).map(|t| k(0.8) * e("bm", t) + e("ma", t)));
            Some((sum("ma") + (dem - sum("ma")) * fbio) / dem)
        }
        // biomass + district network with the default factors: the network covers its use with nothing renewable,
        // biomass covers the rest
        "biored1" => {
            s.push_str(&format!("CONSUMO, ACS, BIOMASA, {}\nCONSUMO, ACS, RED1, {}\nDEMANDA, ACS, {}\n", row("bm"), row("r1"), rowf(&|t| k(0.8) * e("bm", t) + e("r1", t))));
            let dem = <F as Scalar>::sum((0..n).map(|t| k(0.8) * e("bm", t) + e("r1", t)));
            Some(((dem - sum("r1")) * fbio) / dem)
        }
        // biomass next to a non-nearby carrier, with the boiler's output declared
        "bioout" => {
            s.push_str(&format!(
                "3, CONSUMO, ACS, BIOMASA, {}\n3, SALIDA, ACS, {}\nCONSUMO, ACS, GASNATURAL, {}\nDEMANDA, ACS, {}\n",
                row("bm"),
                rowf(&|t| k(0.8) * e("bm", t)),
                row("gn"),
                rowf(&|t| k(0.8) * e("bm", t) + k(0.9) * e("gn", t))
            ));
            let dem = <F as Scalar>::sum((0..n).map(|t| k(0.8) * e("bm", t) + k(0.9) * e("gn", t)));
            let outp = <F as Scalar>::sum((0..n).map(|t| k(0.8) * e("bm", t)));
            Some(outp * fbio / dem)
        }
        // the same boiler with its biomass consumption declared in two lines
        "bioout2" => {
            s.push_str(&format!(
                "3, CONSUMO, ACS, BIOMASA, {}\n3, CONSUMO, ACS, BIOMASA, {}\n3, SALIDA, ACS, {}\nCONSUMO, ACS, GASNATURAL, {}\nDEMANDA, ACS, {}\n",
                row("bm"),
                row("b2"),
                rowf(&|t| k(0.8) * (e("bm", t) + e("b2", t))),
                row("gn"),
                rowf(&|t| k(0.8) * (e("bm", t) + e("b2", t)) + k(0.9) * e("gn", t))
            ));
            let dem = <F as Scalar>::sum((0..n).map(|t| k(0.8) * (e("bm", t) + e("b2", t)) + k(0.9) * e("gn", t)));
            let outp = <F as Scalar>::sum((0..n).map(|t| k(0.8) * (e("bm", t) + e("b2", t))));
            Some(outp * fbio / dem)
        }
        // direct electric heating / heat pump with auxiliaries + PV: the photovoltaic electricity that feeds the
        // auxiliaries does not count; the renewable part is the PV used on site times the non-auxiliary share
        "elpvaux" | "hppvaux" => {
            let hp = mix == "hppvaux";
            s.push_str(&format!("1, CONSUMO, ACS, ELECTRICIDAD, {}\n1, AUX, {}\nPRODUCCION, EL_INSITU, {}\n", row("el"), row("ax"), row("pv")));
            if hp {
                s.push_str(&format!("1, CONSUMO, ACS, EAMBIENTE, {}\n", row("ma")));
            }
            s.push_str(&format!("DEMANDA, ACS, {}\n", rowf(&|t| if hp { e("el", t) + e("ma", t) } else { e("el", t) })));
            let dem = <F as Scalar>::sum((0..n).map(|t| if hp { e("el", t) + e("ma", t) } else { e("el", t) }));
            let used = <F as Scalar>::sum((0..n).map(|t| (e("el", t) + e("ax", t)).min_(e("pv", t))));
            let share = sum("el") / <F as Scalar>::sum((0..n).map(|t| e("el", t) + e("ax", t)));
            Some(((if hp { sum("ma") } else { k(0.0) }) + used * share) / dem)
        }
        // not computable: no demand, zero demand, biomass + non-nearby carrier without declared output
        "nodem" => {
            s.push_str(&format!("CONSUMO, ACS, ELECTRICIDAD, {}\n", row("el")));
            None
        }
        "zerodem" => {
            s.push_str(&format!("CONSUMO, ACS, ELECTRICIDAD, {}\nDEMANDA, ACS, {}\n", row("el"), (0..n).map(|_| "0.0".to_string()).collect::<Vec<_>>().join(", ")));
            None
        }
        // two biomass boilers next to gas, only one of them with its output declared: still not computable
        "bio2sys" | "bio2sysd" => {
            let cr = if mix == "bio2sys" { "BIOMASA" } else { "BIOMASADENSIFICADA" };
            s.push_str(&format!(
                "2, CONSUMO, ACS, {cr}, {}\n2, SALIDA, ACS, {}\n7, CONSUMO, ACS, {cr}, {}\n-1, CONSUMO, ACS, GASNATURAL, {}\nDEMANDA, ACS, {}\n",
                row("bm"),
                rowf(&|t| k(0.8) * e("bm", t)),
                row("b2"),
                row("gn"),
                rowf(&|t| k(0.8) * (e("bm", t) + e("b2", t)) + k(0.9) * e("gn", t))
            ));
            None
        }
        "biogas" => {
            s.push_str(&format!("CONSUMO, ACS, BIOMASA, {}\nCONSUMO, ACS, GASNATURAL, {}\nDEMANDA, ACS, {}\n", row("bm"), row("gn"), rowf(&|t| k(0.8) * e("bm", t) + k(0.9) * e("gn", t))));
            None
        }
        other => panic!("mix {}", other),
    };
    if extra == "nepb" || extra == "both" {
        s.push_str(&format!("CONSUMO, NEPB, GASNATURAL, {}\n", row("xn")));
    }
    if extra == "calgas" || extra == "both" {
        s.push_str(&format!("CONSUMO, CAL, GASOLEO, {}\n", row("xc")));
    }
    if extra == "nepbsame" {
        // non-EPB consumption declared under the id of the DHW system itself
        s.push_str(&format!("1, CONSUMO, NEPB, GASNATURAL, {}\n", row("xn")));
    }
    if extra == "tagcal" || extra == "untagcal" {
        // electricity use of another service, with / without the legacy label of auxiliary energy in its comment
        s.push_str(&format!("CONSUMO, CAL, ELECTRICIDAD, {}{}\n", row("xe"), if extra == "tagcal" { " # CTEEPBD_AUX bomba de calefaccion" } else { " # bomba de calefaccion" }));
    }
    if extra == "samesys" {
        s.push_str(&format!("3, CONSUMO, CAL, BIOMASA, {}\n3, SALIDA, CAL, {}\n", row("xb"), rowf(&|t| k(0.75) * e("xb", t))));
    }
    (s, closed)
}

pub fn scenario(u: &Unit) -> String {
    let n = u.n();
    let (text, closed) = build(u.get("mix"), n, u.get("extra"));
    // the same DHW supply without the extra lines (invariance)
    let (base_text, _) = build(u.get("mix"), n, if u.get("extra") == "tagcal" { "untagcal" } else { "none" });
    let fp = match factors("PEN", &[]) {
        Ok(x) => x,
        Err(e) => return err_kind(&e).to_string(),
    };
    let kexp = input("kexp", Dom::Range(0.0, 1.0));
    let run = |text: &str, kv: F| {
        spec(false);
        let r = text.parse::<Components>().and_then(|c| energy_performance(&c, &fp, kv, k(1.0), false));
        let r = r.map(|ep| {
            let fr = cte::fraccion_renovable_acs_nrb(&ep);
            let ep2 = cte::incorpora_demanda_renovable_acs_nrb(ep);
            (fr, ep2)
        });
        spec(true);
        r
    };
    let (fr, ep) = match run(&text, kexp) {
        Ok(x) => x,
        Err(e) => {
            // a supply mix with a closed form must at least be accepted and evaluated
            if closed.is_some() {
                ob("computable-mix-is-evaluated", f());
            }
            return err_kind(&e).to_string();
        }
    };
    if u.get("extra") == "tagcal" {
        // with another electricity use the closed form of the mix no longer applies: what is stated is that the
        // text of a comment does not matter (same line with and without the legacy label)
        match (fr, run(&base_text, kexp)) {
            (Ok(x), Ok((Ok(xb), _))) => ob_via("comment-text-does-not-matter", "same-term", x.ident(xb), x.approx(xb, 64.0, k(1.0))),
            (Err(_), Ok((Err(_), _))) => {}
            _ => ob("comment-text-does-not-matter.outcome", f()),
        }
        return "ok".into();
    }
    let misc = ep.misc.as_ref();
    let has_val = misc.map(|m| m.contains_key("fraccion_renovable_demanda_acs_nrb")).unwrap_or(false);
    let has_err = misc.map(|m| m.contains_key("error_acs")).unwrap_or(false);
    match (closed, fr) {
        (Some(want), Ok(x)) => {
            out("fraction", x);
            ob("in[0,1]", k(-1.0e-5).le_(x).and(x.le_(k(1.0 + 1.0e-5))));
            ob_via("fraction=closed-form", "same-term", x.ident(want), x.approx(want, 64.0, k(1.0)));
            ob("misc-has-value-not-error", if has_val && !has_err { t() } else { f() });
            // unchanged by k_exp and by the extra lines
            if let Ok((Ok(x0), _)) = run(&text, k(0.0)) {
                ob_via("independent-of-k_exp", "same-term", x.ident(x0), x.approx(x0, 64.0, k(1.0)));
            } else {
                ob("independent-of-k_exp.evaluates", f());
            }
            if u.get("extra") == "scale" {
                let (scaled_text, _) = build(u.get("mix"), n, "scaled");
                match run(&scaled_text, kexp) {
                    Ok((Ok(xs), _)) => ob_via("independent-of-scale", "pow2-scaling", x.ident(xs), x.approx(xs, 64.0, k(1.0))),
                    _ => ob("independent-of-scale.evaluates", f()),
                }
            } else if u.get("extra") != "none" {
                match run(&base_text, kexp) {
                    Ok((Ok(xb), _)) => ob_via("independent-of-other-uses", "same-term", x.ident(xb), x.approx(xb, 64.0, k(1.0))),
                    _ => ob("independent-of-other-uses.evaluates", f()),
                }
            }
            "ok".into()
        }
        (None, Err(_)) => {
            ob("misc-has-error-not-value", if has_err && !has_val { t() } else { f() });
            "ok:not-computable".into()
        }
        (Some(_), Err(e)) => {
            ob("computable-mix-gives-a-number", f());
            format!("unexpected-{}", err_kind(&e))
        }
        (None, Ok(x)) => {
            out("fraction", x);
            ob("non-computable-case-gives-an-error", f());
            "unexpected-number".into()
        }
    }
}
