//! C04 — totals equal the sum of their breakdowns; per-m2 values equal totals / area.

use crate::common::*;
use cteepbd::types::*;

pub fn units(tier: &str, seed: u64) -> Vec<String> {
    let shapes: &[&str] = &[
        "U:CAL:ELECTRICIDAD;U:ACS:ELECTRICIDAD;P:EL_INSITU",
        "U:CAL:ELECTRICIDAD;P:EL_INSITU;U:ACS:GASNATURAL",
        "U:ILU:ELECTRICIDAD;P:EL_INSITU;U:NEPB:ELECTRICIDAD;U:CAL:GASNATURAL",
        "U:ACS:ELECTRICIDAD;P:EL_COGEN;U:COGEN:GASNATURAL",
        "1/U:ACS:ELECTRICIDAD;1/U:ACS:EAMBIENTE;U:CAL:BIOMASA",
    ];
    let mut v = vec![];
    for s in shapes {
        v.push(unit(&[("shape", s), ("n", "1"), ("fs", "PEN"), ("k", "sym"), ("a", "sym")]));
    }
    v.push(unit(&[("shape", shapes[1]), ("n", "1"), ("fs", "SYM"), ("k", "sym"), ("a", "sym")]));
    // two prioritised electricity sources and two services, without and with load matching: by-source and
    // by-service-by-source breakdowns of the produced energy used on site
    for lm in ["0", "1"] {
        v.push(unit(&[("shape", "U:CAL:ELECTRICIDAD;U:ACS:ELECTRICIDAD;P:EL_INSITU;P:EL_COGEN;U:COGEN:GASNATURAL"), ("n", "1"), ("fs", "PEN"), ("k", "sym"), ("a", "sym"), ("lm", lm)]));
    }
    v.push(unit(&[("shape", shapes[0]), ("n", "2"), ("fs", "PEN"), ("k", "sym"), ("a", "sym"), ("lm", "1")]));
    for s in catalogue(seed ^ 0xC04, if tier == "thorough" { 12 } else { 3 }, &[]).iter() {
        v.push(unit(&[("shape", s), ("n", "1"), ("fs", "PEN"), ("k", "sym"), ("a", "sym"), ("bud", "90")]));
    }
    // a carrier that has nothing but a non-EPB use
    v.push(unit(&[("shape", "U:CAL:ELECTRICIDAD;U:NEPB:GASNATURAL;U:NEPB:ELECTRICIDAD"), ("n", "1"), ("fs", "PEN"), ("k", "sym"), ("a", "sym")]));
    // fractions of a Wh
    v.push(unit(&[("shape", shapes[2]), ("n", "1"), ("fs", "PEN"), ("k", "sym"), ("a", "sym"), ("dom", "0.00001:0.01")]));
    if tier == "thorough" {
        for s in shapes {
            v.push(unit(&[("shape", s), ("n", "2"), ("fs", "CEU"), ("k", "sym"), ("a", "sym"), ("lm", "1")]));
            v.push(unit(&[("shape", s), ("n", "1"), ("fs", "PEN"), ("k", "sym"), ("a", "sym"), ("ord", "rev")]));
        }
        v.push(unit(&[("shape", "U:CAL:ELECTRICIDAD;U:ACS:GASNATURAL;U:REF:BIOMASA;P:EL_INSITU"), ("n", "1"), ("fs", "PEN"), ("k", "sym"), ("a", "sym")]));
    }
    v
}

fn perms(n: usize) -> Vec<Vec<usize>> {
    fn rec(cur: &mut Vec<usize>, used: &mut Vec<bool>, out: &mut Vec<Vec<usize>>) {
        if cur.len() == used.len() {
            out.push(cur.clone());
            return;
        }
        for i in 0..used.len() {
            if !used[i] {
                used[i] = true;
                cur.push(i);
                rec(cur, used, out);
                cur.pop();
                used[i] = false;
            }
        }
    }
    let mut out = vec![];
    rec(&mut vec![], &mut vec![false; n], &mut out);
    out
}

/// `total` equals the terms folded from +0.0 in *some* order (the accumulation order over carriers is
/// the iteration order of a hash set); the direct statement is the tolerant one.
fn sum_ob(name: &str, total: F, terms: &[F]) {
    let mut prem = f();
    if terms.len() <= 4 {
        for p in perms(terms.len()) {
            let s = p.iter().fold(k(0.0), |acc, &i| acc + terms[i]);
            prem = prem.or(total.ident(s));
        }
    }
    let s = terms.iter().fold(k(0.0), |acc, x| acc + *x);
    let m = terms.iter().fold(k(0.0), |acc, x| acc + x.abs_());
    ob_via(name, "same-term", prem, total.approx(s, terms.len() as f32 + 1.0, m));
}

fn sum_ob_r(name: &str, total: &RenNrenCo2, terms: &[RenNrenCo2]) {
    sum_ob(&format!("{}.ren", name), total.ren, &terms.iter().map(|r| r.ren).collect::<Vec<_>>());
    sum_ob(&format!("{}.nren", name), total.nren, &terms.iter().map(|r| r.nren).collect::<Vec<_>>());
    sum_ob(&format!("{}.co2", name), total.co2, &terms.iter().map(|r| r.co2).collect::<Vec<_>>());
}

pub fn scenario(u: &Unit) -> String {
    let e = match prepare(u) {
        Ok(e) => e,
        Err(s) => return s,
    };
    let ep = match evaluate(&e) {
        Ok(x) => x,
        Err(s) => return s,
    };
    rec_ep("ep", &ep);
    let bal = &ep.balance;
    let crs: Vec<(String, &BalanceCarrier)> = sorted_kv(ep.balance_cr.iter());
    let col = |g: &dyn Fn(&BalanceCarrier) -> F| -> Vec<F> { crs.iter().map(|(_, b)| g(b)).collect() };
    // (1) whole-building figures = sum over carriers
    sum_ob("used.epus=sum_cr", bal.used.epus, &col(&|b| b.used.epus_an));
    sum_ob("used.nepus=sum_cr", bal.used.nepus, &col(&|b| b.used.nepus_an));
    sum_ob("used.cgnus=sum_cr", bal.used.cgnus, &col(&|b| b.used.cgnus_an));
    sum_ob("prod.an=sum_cr", bal.prod.an, &col(&|b| b.prod.an));
    sum_ob("del.an=sum_cr", bal.del.an, &col(&|b| b.del.an));
    sum_ob("del.onst=sum_cr", bal.del.onst, &col(&|b| b.del.onst_an));
    sum_ob("del.grid=sum_cr", bal.del.grid, &col(&|b| b.del.grid_an));
    sum_ob("exp.an=sum_cr", bal.exp.an, &col(&|b| b.exp.an));
    sum_ob("exp.nepus=sum_cr", bal.exp.nepus, &col(&|b| b.exp.nepus_an));
    sum_ob("exp.grid=sum_cr", bal.exp.grid, &col(&|b| b.exp.grid_an));
    let colr = |g: &dyn Fn(&BalanceCarrier) -> RenNrenCo2| -> Vec<RenNrenCo2> { crs.iter().map(|(_, b)| g(b)).collect() };
    sum_ob_r("we.a=sum_cr", &bal.we.a, &colr(&|b| b.we.a));
    sum_ob_r("we.b=sum_cr", &bal.we.b, &colr(&|b| b.we.b));
    sum_ob_r("we.del=sum_cr", &bal.we.del, &colr(&|b| b.we.del));
    sum_ob_r("we.exp_a=sum_cr", &bal.we.exp_a, &colr(&|b| b.we.exp_a));
    sum_ob_r("we.exp=sum_cr", &bal.we.exp, &colr(&|b| b.we.exp));
    // (2) breakdown maps: key sets and sums
    let mut srvs: Vec<String> = vec![];
    let mut srcs: Vec<String> = vec![];
    for (_, b) in &crs {
        for (s, _) in sorted_kv(b.used.epus_by_srv_an.iter()) {
            if !srvs.contains(&s) {
                srvs.push(s);
            }
        }
        for (s, _) in sorted_kv(b.prod.by_src_an.iter()) {
            if !srcs.contains(&s) {
                srcs.push(s);
            }
        }
    }
    srvs.sort();
    srcs.sort();
    let keys = |v: Vec<(String, &F)>| -> Vec<String> { v.into_iter().map(|x| x.0).collect() };
    ob("keys(epus_by_srv)=services", if keys(sorted_kv(bal.used.epus_by_srv.iter())) == srvs { t() } else { f() });
    ob("keys(prod.by_src)=sources", if keys(sorted_kv(bal.prod.by_src.iter())) == srcs { t() } else { f() });
    ob("keys(prod.epus_by_src)=sources", if keys(sorted_kv(bal.prod.epus_by_src.iter())) == srcs { t() } else { f() });
    for s in &srvs {
        let terms: Vec<F> = crs.iter().filter_map(|(_, b)| crate::by_name!(b.used.epus_by_srv_an, s.as_str()).copied()).collect();
        match crate::by_name!(bal.used.epus_by_srv, s.as_str()) {
            Some(v) => sum_ob(&format!("used.epus_by_srv.{}=sum_cr", s), *v, &terms),
            None => ob(&format!("used.epus_by_srv.{}.present", s), f()),
        }
        // by carrier and service: exactly the per-carrier value
        for (cn, b) in &crs {
            let want = crate::by_name!(b.used.epus_by_srv_an, s.as_str());
            let got = crate::by_name!(bal.used.epus_by_cr_by_srv, s.as_str()).and_then(|m| crate::by_name!(m, cn.as_str()));
            match (want, got) {
                (Some(w), Some(g)) => ob(&format!("used.epus_by_cr_by_srv.{}.{}", s, cn), g.ident(*w)),
                (None, None) => {}
                _ => ob(&format!("used.epus_by_cr_by_srv.{}.{}.present", s, cn), f()),
            }
        }
        // weighted energy by service (carriers that have this service)
        let ta: Vec<RenNrenCo2> = crs.iter().filter_map(|(_, b)| crate::by_name!(b.we.a_by_srv, s.as_str()).copied()).collect();
        let tb: Vec<RenNrenCo2> = crs.iter().filter_map(|(_, b)| crate::by_name!(b.we.b_by_srv, s.as_str()).copied()).collect();
        if let Some(v) = crate::by_name!(bal.we.a_by_srv, s.as_str()) {
            sum_ob_r(&format!("we.a_by_srv.{}=sum_cr", s), v, &ta);
        } else {
            ob(&format!("we.a_by_srv.{}.present", s), f());
        }
        if let Some(v) = crate::by_name!(bal.we.b_by_srv, s.as_str()) {
            sum_ob_r(&format!("we.b_by_srv.{}=sum_cr", s), v, &tb);
        } else {
            ob(&format!("we.b_by_srv.{}.present", s), f());
        }
    }
    for s in &srcs {
        let terms: Vec<F> = crs.iter().filter_map(|(_, b)| crate::by_name!(b.prod.by_src_an, s.as_str()).copied()).collect();
        if let Some(v) = crate::by_name!(bal.prod.by_src, s.as_str()) {
            sum_ob(&format!("prod.by_src.{}=sum_cr", s), *v, &terms);
        }
        let terms: Vec<F> = crs.iter().filter_map(|(_, b)| crate::by_name!(b.prod.epus_by_src_an, s.as_str()).copied()).collect();
        if let Some(v) = crate::by_name!(bal.prod.epus_by_src, s.as_str()) {
            sum_ob(&format!("prod.epus_by_src.{}=sum_cr", s), *v, &terms);
        }
    }
    // by carrier: entries are the per-carrier values, present iff non-zero
    for (cn, b) in &crs {
        for (nm, map, val) in [
            ("prod.by_cr", &bal.prod.by_cr, b.prod.an),
            ("del.grid_by_cr", &bal.del.grid_by_cr, b.del.grid_an),
            ("used.epus_by_cr", &bal.used.epus_by_cr, b.used.epus_an),
        ] {
            match crate::by_name!(map, cn.as_str()) {
                Some(g) => ob(&format!("{}.{}", nm, cn), g.ident(val)),
                None => ob(&format!("{}.{}.absent=>zero", nm, cn), val.eq_(k(0.0))),
            }
        }
        // per carrier: delivered = grid + on-site + cogeneration input; exported = non-EPB + grid;
        // uses by service add up to the EPB use; weighted energy by service adds up for carriers with EPB use
        ob(&format!("{}.del.an=grid+onst+cgn", cn), b.del.an.ident(b.del.grid_an + b.del.onst_an + b.used.cgnus_an));
        ob(&format!("{}.exp.an=nepus+grid", cn), b.exp.an.ident(b.exp.nepus_an + b.exp.grid_an));
        let by_srv: Vec<F> = sorted_kv(b.used.epus_by_srv_an.iter()).into_iter().map(|x| *x.1).collect();
        if by_srv.len() == 1 {
            ob(&format!("{}.epus=sum_srv", cn), b.used.epus_an.ident(by_srv[0]));
        } else if by_srv.len() > 1 {
            let s = by_srv.iter().fold(k(0.0), |a, x| a + *x);
            ob(&format!("{}.epus=sum_srv", cn), b.used.epus_an.approx(s, by_srv.len() as f32 + 2.0, s));
        }
        // produced by source adds up to the production
        let by_src: Vec<F> = sorted_kv(b.prod.by_src_an.iter()).into_iter().map(|x| *x.1).collect();
        if by_src.len() == 1 {
            ob(&format!("{}.prod.an=sum_src", cn), b.prod.an.ident(by_src[0]));
        }
        // produced energy used on site: by source adds up to the total, and by service adds up to each source's part
        // (the total is clamped to the EPB use after the allocation, so this is a tolerant statement)
        let epus_src: Vec<(String, &F)> = sorted_kv(b.prod.epus_by_src_an.iter());
        let mag = b.used.epus_an + b.prod.an;
        if epus_src.len() == 1 {
            ob_via(&format!("{}.prod.epus=sum_src", cn), "same-term", b.prod.epus_an.ident(*epus_src[0].1), b.prod.epus_an.approx(*epus_src[0].1, 4.0 * e.n as f32, mag));
        } else if epus_src.len() > 1 {
            let s = epus_src.iter().fold(k(0.0), |a, x| a + *x.1);
            ob(&format!("{}.prod.epus~sum_src", cn), b.prod.epus_an.approx(s, 4.0 * (e.n * epus_src.len()) as f32, mag));
        }
        if by_src.len() > 1 {
            let s = by_src.iter().fold(k(0.0), |a, x| a + *x);
            ob(&format!("{}.prod.an~sum_src", cn), b.prod.an.approx(s, 4.0 * (e.n * by_src.len()) as f32, mag));
        }
        for (src, by_srv_map) in sorted_kv(b.prod.epus_by_srv_by_src_an.iter()) {
            let parts: Vec<F> = sorted_kv(by_srv_map.iter()).into_iter().map(|x| *x.1).collect();
            if let Some(tot) = crate::by_name!(b.prod.epus_by_src_an, src.as_str()) {
                if parts.len() == 1 {
                    ob_via(&format!("{}.prod.epus_by_src.{}=sum_srv", cn, src), "same-term", tot.ident(parts[0]), tot.approx(parts[0], 4.0 * e.n as f32, mag));
                } else if parts.len() > 1 {
                    let s = parts.iter().fold(k(0.0), |a, x| a + *x);
                    ob(&format!("{}.prod.epus_by_src.{}~sum_srv", cn, src), tot.approx(s, 4.0 * (e.n * parts.len()) as f32, mag));
                }
            } else {
                ob(&format!("{}.prod.epus_by_src.{}.present", cn, src), f());
            }
        }
        // with a single service the service share is the whole
        let a_srv: Vec<&RenNrenCo2> = sorted_kv(b.we.a_by_srv.iter()).into_iter().map(|x| x.1).collect();
        if a_srv.len() == 1 {
            let has_use = k(0.0).lt_(b.used.epus_an);
            ob(&format!("{}.we.a=sum_srv", cn), has_use.implies(b.we.a.ren.ident(a_srv[0].ren).and(b.we.a.nren.ident(a_srv[0].nren)).and(b.we.a.co2.ident(a_srv[0].co2))));
        }
    }
    // (3) per-m2 = absolute / area (the implementation multiplies by 1/area: lemma recip), everything else untouched
    let ka = k(1.0) / e.area;
    let (la, lm) = (leaves_of_balance(bal), leaves_of_balance(&ep.balance_m2));
    if la.len() != lm.len() {
        ob("m2.same-structure", f());
    } else {
        for ((n, x), (n2, y)) in la.iter().zip(lm.iter()) {
            if n != n2 {
                ob("m2.same-structure", f());
                break;
            }
            ob_via(&format!("m2{}=abs/area", n), "recip", y.ident(ka * *x), y.approx(*x / e.area, 2.0, *x / e.area));
        }
    }
    ob("arearef-echoed", ep.arearef.ident(e.area));
    // a second area: RER, k_exp, inputs, absolute and per-carrier results are unaffected
    let a2 = input("area2", Dom::Range(0.001, 1.0e6));
    if let Ok(ep2) = evaluate_with(&e, &e.fp, e.kexp, a2, e.lm) {
        let (l1, l2) = (leaves(&ep), leaves(&ep2));
        if l1.len() != l2.len() {
            ob("area2.same-structure", f());
        } else {
            for ((n, x), (_, y)) in l1.iter().zip(l2.iter()) {
                if !n.starts_with(".m2") && n != ".arearef" {
                    ob(&format!("area-independent{}", n), x.ident(*y));
                }
            }
        }
    } else {
        ob("area2.evaluates", f());
    }
    "ok".into()
}

fn leaves_of_balance(b: &Balance) -> Vec<(String, F)> {
    LEAVES.with(|l| l.borrow_mut().replace(vec![]));
    rec_balance("", b);
    LEAVES.with(|l| l.borrow_mut().take().unwrap())
}
