//! C10 — results depend on what is declared, not on file layout or on the run.

use crate::common::*;
use cteepbd::*;

pub fn units(tier: &str, _seed: u64) -> Vec<String> {
    let shapes: &[&str] = &[
        "U:CAL:ELECTRICIDAD;P:EL_INSITU;U:ACS:GASNATURAL",
        "1/U:ACS:ELECTRICIDAD;1/U:ACS:EAMBIENTE;2/U:CAL:EAMBIENTE;2/P:EAMBIENTE",
        "1/U:CAL:GASNATURAL;1/U:ACS:GASNATURAL;1/X;1/~O:CAL;1/~O:ACS;2/U:REF:ELECTRICIDAD;2/X",
        "U:ILU:ELECTRICIDAD;P:EL_INSITU;P:EL_COGEN;U:COGEN:GASNATURAL;U:NEPB:ELECTRICIDAD",
        // two systems drawing ambient heat, one of them for two services: every interleaving of their lines
        "1/U:CAL:EAMBIENTE;1/U:ACS:EAMBIENTE;2/U:CAL:EAMBIENTE",
        // DHW from a biomass boiler with declared output next to gas: the renewable share of the DHW demand is part
        // of what the evaluation reports
        "3/~U:ACS:BIOMASA;3/~O:ACS;~U:ACS:GASNATURAL;~D:ACS",
        // two multi-service systems with auxiliaries
        "1/U:CAL:GASNATURAL;1/U:ACS:GASNATURAL;1/X;1/~O:CAL;1/~O:ACS;5/U:CAL:ELECTRICIDAD;5/U:REF:ELECTRICIDAD;5/X;5/~O:CAL;5/~O:REF",
    ];
    let mut v = vec![];
    for s in shapes {
        let nl = s.split(';').count();
        let rewrites: Vec<String> = {
            let mut r = vec!["deco".to_string(), "id0".to_string(), "renum".to_string(), "rev".to_string(), "ord:rev".to_string(), "ord:hash:1".to_string()];
            // every line is split once (shapes with auxiliaries: an AUX line split in two must not matter either)
            for j in 0..nl {
                // quick tier: the first two lines and every auxiliary line; all lines in the thorough tier
                // (shapes without auxiliaries are cheap: all their lines)
                if tier == "thorough" || j < 2 || !s.contains("/X") || s.split(';').nth(j).map(|x| x.ends_with("/X")).unwrap_or(false) {
                    r.push(format!("split:{}", j));
                }
            }
            for j in 0..(nl - 1) {
                r.push(format!("swap:{}", j));
            }
            r
        };
        // the ten-line shape with two multi-service systems: the rewritings that change the order in which systems are met
        let rewrites: Vec<String> = if s.contains("5/X") { ["renum", "rev", "ord:rev", "ord:hash:1", "swap:4"].iter().map(|x| x.to_string()).collect() } else { rewrites };
        for r in rewrites {
            // rewritings that re-associate a three-term float sum (whole-building totals over carriers, averaged
            // export factors over sources) need a tolerance proof that no back end delivers (DESIGN.md 2.4):
            // they are explored in the thorough tier, where they are reported INCONCLUSIVE unless violated
            let hard = (s.contains("1/X") && (r == "rev" || r == "swap:5" || r == "split:1" || r == "split:0" || r == "split:3" || r == "split:4")) || (s.contains("EL_COGEN") && (r == "rev" || r == "swap:1"));
            if hard && tier != "thorough" && !s.contains("5/X") {
                continue;
            }
            if s.contains("5/X") {
                v.push(unit(&[("shape", s), ("n", "1"), ("rw", &r), ("fs", "PEN"), ("bud", "60")]));
                continue;
            }
            v.push(unit(&[("shape", s), ("n", "1"), ("rw", &r), ("fs", "PEN")]));
        }
    }
    if tier == "thorough" {
        for s in shapes {
            for r in ["rev", "deco", "ord:hash:2", "ord:hash:5", "split:0", "renum"] {
                v.push(unit(&[("shape", s), ("n", "2"), ("rw", r), ("fs", "CAN"), ("lm", "1")]));
            }
        }
        // three uses of one carrier: genuine re-association (tolerant comparison)
        for r in ["rev", "swap:0", "swap:1", "ord:rev"] {
            v.push(unit(&[("shape", "U:CAL:ELECTRICIDAD;U:ACS:ELECTRICIDAD;U:ILU:ELECTRICIDAD;U:CAL:GASNATURAL;U:CAL:BIOMASA"), ("n", "1"), ("rw", r), ("fs", "PEN")]));
        }
    }
    v
}

fn render(lines: &[LineT], n: usize, order: &[usize], split: Option<usize>, renum: bool, deco: bool, id0: bool) -> String {
    let mut out = String::new();
    if deco {
        out.push('\u{feff}');
        out.push_str("# archivo de prueba\r\n\r\nvector, tipo, src_dst\r\n   #META CTE_AREAREF: 123.5  \r\n\t#META CTE_KEXP: 0.3\r\n  #CTE_Localizacion: CANARIAS \r\n");
    } else {
        out.push_str("#META CTE_AREAREF: 123.5\n#META CTE_KEXP: 0.3\n#CTE_Localizacion: CANARIAS\n");
    }
    for &i in order {
        let l = &lines[i];
        let mut l2 = l.clone();
        if renum {
            // injective renumbering that does not preserve the order of the ids
            l2.id = Some(match l.id.unwrap_or(0) {
                0 => 7,
                1 => -3,
                2 => 4,
                x => x + 100,
            });
        }
        if id0 {
            // write id 0 explicitly / omit it
            l2.id = match l.id {
                None => Some(0),
                Some(0) => None,
                x => x,
            };
            if l2.kind == 'O' && l2.id.is_none() {
                l2.id = Some(0);
            }
        }
        let vals: Vec<F> = (0..n).map(|t| line_value(l, t)).collect();
        let mut rows: Vec<Vec<String>> = vec![];
        if split == Some(i) {
            // two lines with the same tags whose values add up to the original
            rows.push((0..n).map(|t| format!("{}", input(&format!("{}_{}a", l.stem, t), l.dom))).collect());
            rows.push((0..n).map(|t| format!("{}", input(&format!("{}_{}b", l.stem, t), l.dom))).collect());
        } else {
            rows.push(vals.iter().map(|v| format!("{}", v)).collect());
        }
        for r in rows {
            let mut s = render_line(&l2, &r);
            if deco {
                s = format!("   {}   # un comentario\r", s.replace(", ", " ,  "));
                if !l2.comment.is_empty() {
                    s = format!("   {}\r", render_line(&l2, &r));
                }
            }
            out.push_str(&s);
            out.push('\n');
            if deco {
                out.push_str("\r\n# otro comentario\r\n");
            }
        }
    }
    out
}

pub fn scenario(u: &Unit) -> String {
    let lines = parse_shape(u.get("shape"));
    let n = u.n();
    let rw = u.get("rw");
    let ident_order: Vec<usize> = (0..lines.len()).collect();
    let mut order = ident_order.clone();
    let (mut split, mut renum, mut deco, mut id0, mut policy) = (None::<usize>, false, false, false, None::<String>);
    if rw == "rev" {
        order.reverse();
    } else if let Some(j) = rw.strip_prefix("swap:") {
        let j: usize = j.parse().unwrap();
        order.swap(j, j + 1);
    } else if let Some(j) = rw.strip_prefix("split:") {
        split = Some(j.parse().unwrap());
    } else if rw == "renum" {
        renum = true;
    } else if rw == "deco" {
        deco = true;
    } else if rw == "id0" {
        id0 = true;
    } else if let Some(p) = rw.strip_prefix("ord:") {
        policy = Some(p.to_string());
    }
    // base text; for a split the base line carries the sum of the two parts
    if let Some(j) = split {
        for t in 0..n {
            let l = &lines[j];
            let a = input(&format!("{}_{}a", l.stem, t), l.dom);
            let b = input(&format!("{}_{}b", l.stem, t), l.dom);
            // the base value *is* a + b: register it under the name of the base input
            verif_alias(&format!("{}_{}", l.stem, t), a + b);
        }
    }
    let base_text = render(&lines, n, &ident_order, None, false, false, false);
    let new_text = render(&lines, n, &order, split, renum, deco, id0);
    let fp = match factors(u.get_or("fs", "PEN"), &carriers_of(&lines)) {
        Ok(x) => x,
        Err(e) => return err_kind(&e).to_string(),
    };
    let run = |text: &str, pol: Option<&str>| -> std::result::Result<types::EnergyPerformance, String> {
        spec(false);
        if let Some(p) = pol {
            verif_rt::maps::set_policy(p);
        }
        let r = text.parse::<Components>().and_then(|c| energy_performance(&c, &fp, k(0.0), k(1.0), u.lm()));
        verif_rt::maps::set_policy(u.get_or("ord", "ins"));
        spec(true);
        r.map_err(|e| err_kind(&e).to_string())
    };
    // the metadata that is read does not depend on the layout either
    {
        spec(false);
        let (ma, mb) = (base_text.parse::<Components>().map(|c| c.meta), new_text.parse::<Components>().map(|c| c.meta));
        spec(true);
        if let (Ok(ma), Ok(mb)) = (ma, mb) {
            let show = |m: &Vec<types::Meta>| m.iter().map(|x| format!("{}={}", x.key, x.value)).collect::<Vec<_>>().join(";");
            ob("same.metadata", if show(&ma) == show(&mb) { t() } else { f() });
        }
    }
    let (a, b) = (run(&base_text, None), run(&new_text, policy.as_deref()));
    match (a, b) {
        (Ok(a), Ok(b)) => {
            rec_ep("base", &a);
            rec_ep("rw", &b);
            if lines.iter().any(|l| l.kind == 'D' && l.a == "ACS") {
                spec(false);
                let (fa, fb) = (cte::fraccion_renovable_acs_nrb(&a), cte::fraccion_renovable_acs_nrb(&b));
                spec(true);
                match (fa, fb) {
                    (Ok(x), Ok(y)) => ob_via("same.dhw-renewable-fraction", "same-term", x.ident(y), x.approx(y, 64.0, k(1.0))),
                    (Err(_), Err(_)) => {}
                    _ => ob("same.dhw-renewable-fraction.outcome", f()),
                }
            }
            let (la, lb) = (leaves(&a), leaves(&b));
            let names = |l: &Vec<(String, F)>| -> Vec<String> { l.iter().map(|x| x.0.clone()).collect() };
            // map entries that exist only when a value is non-zero (grid delivery by carrier, ...) may appear in one
            // layout and not in the other when the value is rounding noise: a missing leaf counts as zero
            let mut all: Vec<String> = names(&la);
            for nm in names(&lb) {
                if !all.contains(&nm) {
                    all.push(nm);
                }
            }
            // magnitude of the inputs (tolerance of re-associated sums)
            let mut mag = k(0.0);
            for l in &lines {
                for t in 0..n {
                    mag = mag + line_value(l, t).abs_();
                }
            }
            for nm in &all {
                let x = la.iter().find(|v| &v.0 == nm).map(|v| v.1).unwrap_or(k(0.0));
                let y = lb.iter().find(|v| &v.0 == nm).map(|v| v.1).unwrap_or(k(0.0));
                // identical terms on the unchanged tree; the statement itself is the tolerant one
                ob_via(&format!("same{}", nm), "same-term", x.ident(y), x.approx(y, 64.0, mag + x.abs_()));
            }
            "ok".into()
        }
        (Err(a), Err(b)) => {
            ob("same-error", if a == b { t() } else { f() });
            format!("err-both:{}", a)
        }
        (Ok(_), Err(e)) | (Err(e), Ok(_)) => {
            ob("same-outcome", f());
            format!("outcome-differs:{}", e)
        }
    }
}

/// Register `v` as the value of the input name (the base text of a split carries the sum node).
fn verif_alias(name: &str, v: F) {
    <F as Scalar>::alias(name, v)
}
