//! C16 — no input makes the library panic (the program half is driven from the orchestrator:
//! every path witness of these scenarios is also fed to the real `cteepbd` binary, debug and release).

use crate::common::*;
#[allow(unused_imports)]
use cteepbd::types::*;
use cteepbd::*;

const BASES: [&str; 7] = [
    "U:CAL:ELECTRICIDAD;P:EL_INSITU",
    "1/U:ACS:EAMBIENTE;1/X;1/O:ACS;D:ACS",
    "U:ACS:ELECTRICIDAD;P:EL_COGEN;U:COGEN:GASNATURAL",
    "2/U:CAL:GASNATURAL;2/U:REF:ELECTRICIDAD;2/X;2/O:CAL;2/O:REF",
    // DHW supplies that exercise the renewable-fraction code: biomass with declared output next to gas, with
    // production on the same system; heat pump with declared ambient production and biomass cogeneration
    "3/U:ACS:BIOMASA;3/O:ACS;3/P:EL_INSITU;U:ACS:GASNATURAL;D:ACS",
    "1/U:ACS:ELECTRICIDAD;1/U:ACS:EAMBIENTE;1/P:EAMBIENTE;P:EL_COGEN;U:COGEN:BIOMASA;D:ACS",
    // both electricity sources (priority allocation)
    "U:CAL:ELECTRICIDAD;P:EL_INSITU;P:EL_COGEN;U:COGEN:GASNATURAL;U:NEPB:ELECTRICIDAD",
];

pub fn units(tier: &str, seed: u64) -> Vec<String> {
    let mut v = vec![];
    for (bi, b) in BASES.iter().enumerate() {
        let nl = b.split(';').count();
        let mut cs: Vec<String> = vec!["none".into(), "longtext0".into(), "longtext1".into(), "meta1".into(), "dem2".into(), "salidafirst".into(), "auxfirst".into(), "demfirst".into(), "legacy".into()];
        for i in 0..nl {
            cs.push(format!("only:{}", i));
            cs.push(format!("trunc:{}", i));
            cs.push(format!("empty:{}", i));
            cs.push(format!("dup:{}", i));
            cs.push(format!("nonnum:{}", i));
            cs.push(format!("tag:{}", i));
            cs.push(format!("dropfield:{}:1", i));
            cs.push(format!("dropfield:{}:2", i));
        }
        for i in 0..nl.saturating_sub(1) {
            cs.push(format!("swap:{}", i));
        }
        for (ci, c) in cs.iter().enumerate() {
            // quick: the structural corruptions of every base and a seed-selected slice of the positional ones
            let structural = !c.contains(':');
            if tier != "thorough" && !structural && (ci as u64 + seed + bi as u64) % 3 != 0 {
                continue;
            }
            v.push(unit(&[("base", &bi.to_string()), ("c", c), ("n", if tier == "thorough" { "2" } else { "1" })]));
        }
    }
    v
}

pub fn corrupt(lines: Vec<String>, c: &str, val: &dyn Fn(&str) -> String) -> Vec<String> {
    let mut l = lines;
    let arg = |i: usize| -> usize { c.split(':').nth(i).and_then(|x| x.parse().ok()).unwrap_or(0) };
    if c == "dem2" {
        l.push(format!("DEMANDA, ACS, {}, {}", val("dx0"), val("dx1")));
        l.push(format!("DEMANDA, ACS, {}", val("dx2")));
    } else if c == "longtext0" || c == "longtext1" {
        // a malformed line carrying a long comment of two-byte characters (error messages that quote the line must not
        // cut it inside a character), in both alignments
        let pad = if c == "longtext1" { "x" } else { "" };
        let i = l.len() / 2;
        if let Some((a, _)) = l[i].clone().rsplit_once(", ") {
            l[i] = format!("{}, abc # {}{}", a, pad, "áéíóúñ".repeat(60));
        }
    } else if c == "meta1" {
        // user factors in the metadata with the wrong number of values
        l.insert(0, "#META CTE_RED1: 0.5".to_string());
        l.insert(1, "#META CTE_RED2: (1.0)".to_string());
        l.insert(2, "#META CTE_KEXP: 0.5".to_string());
    } else if c == "salidafirst" {
        l.insert(0, format!("1, SALIDA, CAL, {}, {}", val("sx0"), val("sx1")));
    } else if c == "auxfirst" {
        l.insert(0, format!("7, AUX, {}, {}", val("ax0"), val("ax1")));
    } else if c == "demfirst" {
        l.insert(0, format!("DEMANDA, REF, {}, {}", val("rx0"), val("rx1")));
    } else if c == "legacy" {
        // lines without id (legacy format)
        l = l.into_iter().map(|s| match s.split_once(", ") { Some((a, b)) if a.parse::<i32>().is_ok() && !b.starts_with("SALIDA") => b.to_string(), _ => s }).collect();
    } else if c.starts_with("only:") {
        l = vec![l[arg(1)].clone()];
    } else if c.starts_with("trunc:") {
        let i = arg(1);
        if let Some((a, _)) = l[i].rsplit_once(", ") {
            l[i] = a.to_string();
        }
    } else if c.starts_with("empty:") {
        let i = arg(1);
        let f: Vec<&str> = l[i].split(", ").collect();
        let keep: Vec<&str> = f.iter().cloned().filter(|x| !x.starts_with('?') && x.parse::<f32>().is_err() || x.parse::<i32>().is_ok() && f[0] == *x).collect();
        l[i] = keep.join(", ");
    } else if c.starts_with("dup:") {
        let i = arg(1);
        let s = l[i].clone();
        l.insert(i, s);
    } else if c.starts_with("nonnum:") {
        let i = arg(1);
        if let Some((a, _)) = l[i].rsplit_once(", ") {
            l[i] = format!("{}, abc", a);
        }
    } else if c.starts_with("tag:") {
        let i = arg(1);
        let mut f: Vec<String> = l[i].split(", ").map(|x| x.to_string()).collect();
        if f.len() > 1 {
            f[1] = "XXX".into();
        }
        l[i] = f.join(", ");
    } else if c.starts_with("dropfield:") {
        let (i, j) = (arg(1), arg(2));
        let mut f: Vec<String> = l[i].split(", ").map(|x| x.to_string()).collect();
        if j < f.len() {
            f.remove(j);
        }
        l[i] = f.join(", ");
    } else if c.starts_with("swap:") {
        let i = arg(1);
        l.swap(i, i + 1);
    }
    l
}

pub fn scenario(u: &Unit) -> String {
    let bi: usize = u.get("base").parse().unwrap();
    let mut lines = parse_shape(BASES[bi]);
    let n = u.n();
    // every numeric field ranges over all 2^32 bit patterns
    for l in lines.iter_mut() {
        l.dom = Dom::AnyBits;
    }
    let rendered: Vec<String> = lines.iter().map(|l| render_line(l, &(0..n).map(|t| format!("{}", line_value(l, t))).collect::<Vec<_>>())).collect();
    let text = corrupt(rendered, u.get("c"), &|nm| format!("{}", input(nm, Dom::AnyBits))).join("\n");
    <F as Scalar>::note(text.clone());
    spec(false);
    let comps = match text.parse::<Components>() {
        Ok(c) => c,
        Err(e) => return format!("{}@parse", err_kind(&e)),
    };
    let _ = comps.get_meta_rennren("CTE_RED1");
    let _ = comps.get_meta_rennren("CTE_RED2");
    let _ = comps.get_meta_f32("CTE_KEXP");
    let _ = comps.to_string();
    let _ = comps.to_xml();
    let fp = match cte::wfactors_from_loc("PENINSULA", &cte::CTE_LOCWF_RITE2014, no_user(), cte::CTE_USERWF) {
        Ok(x) => x,
        Err(e) => return format!("{}@factors", err_kind(&e)),
    };
    // what the program does by default: simplified factor set
    let slim = fp.clone().strip(&comps);
    let mut outcome = String::from("ok");
    for (nm, f) in [("full", &fp), ("slim", &slim)] {
        match energy_performance(&comps, f, k(0.0), k(1.0), false) {
            Ok(ep) => {
                let _ = cte::fraccion_renovable_acs_nrb(&ep);
                let ep = cte::incorpora_demanda_renovable_acs_nrb(ep);
                let _ = ep.to_plain();
                let _ = ep.to_xml();
            }
            Err(e) => outcome = format!("{}@eval-{}", err_kind(&e), nm),
        }
    }
    spec(true);
    outcome
}
