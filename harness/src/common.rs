//! Shared scenario plumbing: units, shapes, factor sets, recording of result leaves.
//! The same source is compiled against the lifted crate (F = Sf) and the untouched crate (F = f32).

use cteepbd::types::*;
use cteepbd::*;
use std::collections::BTreeMap;
use std::fmt::Debug;
pub use verif_rt::dag::Dom;
pub use verif_rt::{Logic, Scalar};

#[cfg(feature = "lifted")]
pub type F = verif_rt::Sf;
#[cfg(not(feature = "lifted"))]
pub type F = f32;
pub type B = <F as Scalar>::B;

pub fn k(v: f32) -> F {
    <F as Scalar>::k(v)
}
pub fn ob(name: &str, b: B) {
    <B as Logic>::record(name, b)
}
/// obligation that follows from `premises` through a solver-proved lemma (rt/lemmas/<lemma>.smt2);
/// if the premises cannot be established the direct statement is decided instead
pub fn ob_via(name: &str, lemma: &str, premises: B, direct: B) {
    <B as Logic>::record_via(name, lemma, premises, direct)
}
/// `whole = p1 + p2` within two roundings, for `p2` computed as `whole - p1` with `0 <= p1 <= whole`
pub fn ob_split(name: &str, whole: F, p1: F, p2: F) {
    let prem = p2.ident(whole - p1).and(k(0.0).le_(p1)).and(p1.le_(whole)).and(whole.le_(k(1.0e30)));
    ob_via(name, "split", prem, (p1 + p2).approx(whole, 2.0, whole));
}
pub fn out(name: &str, v: F) {
    let diverted = LEAVES.with(|l| {
        if let Some(vv) = l.borrow_mut().as_mut() {
            vv.push((name.to_string(), v));
            true
        } else {
            false
        }
    });
    if !diverted {
        <F as Scalar>::record(name, v)
    }
}
pub fn input(name: &str, dom: Dom) -> F {
    <F as Scalar>::input(name, dom)
}
/// numeric token for text inputs: a placeholder in the lifted build, a round-trip decimal natively
pub fn tok(name: &str, dom: Dom) -> String {
    format!("{}", input(name, dom))
}
/// specification mode on/off (terms built by the harness do not count as program points)
pub fn spec(on: bool) {
    <F as Scalar>::spec(on)
}
pub fn t() -> B {
    <B as Logic>::t()
}
pub fn all<I: IntoIterator<Item = B>>(it: I) -> B {
    <B as Logic>::all(it)
}

// ------------------------------------------------------------------ units

/// A unit of work: `key=value|key=value...`
#[derive(Clone, Debug)]
pub struct Unit {
    pub kv: BTreeMap<String, String>,
}

impl Unit {
    pub fn parse(s: &str) -> Unit {
        let mut kv = BTreeMap::new();
        for part in s.split('|') {
            if let Some((a, b)) = part.split_once('=') {
                kv.insert(a.to_string(), b.to_string());
            }
        }
        Unit { kv }
    }
    pub fn get(&self, key: &str) -> &str {
        self.kv.get(key).map(|s| s.as_str()).unwrap_or("")
    }
    pub fn get_or<'a>(&'a self, key: &str, d: &'a str) -> &'a str {
        self.kv.get(key).map(|s| s.as_str()).unwrap_or(d)
    }
    pub fn n(&self) -> usize {
        self.get_or("n", "1").parse().unwrap()
    }
    pub fn lm(&self) -> bool {
        self.get_or("lm", "0") == "1"
    }
    pub fn id(&self) -> String {
        self.kv.iter().map(|(a, b)| format!("{}={}", a, b)).collect::<Vec<_>>().join("|")
    }
}

pub fn unit(parts: &[(&str, &str)]) -> String {
    let mut kv = BTreeMap::new();
    for (a, b) in parts {
        kv.insert(a.to_string(), b.to_string());
    }
    Unit { kv }.id()
}

// ------------------------------------------------------------------ shapes

/// One component line template.
///   U:<srv>:<carrier>   CONSUMO        P:<source>   PRODUCCION
///   X                   AUX            O:<srv>      SALIDA (signed values)
///   D:<srv>             DEMANDA
/// optional prefix `<id>/`, optional suffix `#<comment>`; `~` prefix on the kind letter makes the
/// values strictly positive (no zero regime), `!` makes them lazily split.
#[derive(Clone, Debug)]
pub struct LineT {
    pub id: Option<i32>,
    pub kind: char,
    pub a: String,
    pub b: String,
    pub comment: String,
    pub dom: Dom,
    /// name stem of the inputs of this line
    pub stem: String,
}

pub fn parse_shape(shape: &str) -> Vec<LineT> {
    let mut v = vec![];
    for (i, item) in shape.split(';').filter(|s| !s.is_empty()).enumerate() {
        let (item, comment) = match item.split_once('#') {
            Some((a, b)) => (a, b.to_string()),
            None => (item, String::new()),
        };
        let (id, rest) = match item.split_once('/') {
            Some((a, b)) => (Some(a.parse::<i32>().expect("shape id")), b),
            None => (None, item),
        };
        let (rest, dom_override) = if let Some(r) = rest.strip_prefix('~') {
            // strictly positive; with a `dom=` override of the unit, anywhere in that range
            (r, Some(match crate::common::dom_override() {
                Some((lo, hi)) => Dom::Range(lo, hi),
                None => Dom::EnergyPos,
            }))
        } else if let Some(r) = rest.strip_prefix('!') {
            (r, Some(Dom::EnergyLazy))
        } else {
            (rest, None)
        };
        let f: Vec<&str> = rest.split(':').collect();
        let kind = f[0].chars().next().unwrap();
        let dom = dom_override.unwrap_or(match (kind, crate::common::dom_override()) {
            ('O', _) => Dom::EnergySigned,
            (_, Some((lo, hi))) => Dom::EnergyR(lo, hi),
            _ => Dom::Energy,
        });
        v.push(LineT {
            id,
            kind,
            a: f.get(1).unwrap_or(&"").to_string(),
            b: f.get(2).unwrap_or(&"").to_string(),
            comment,
            dom,
            stem: format!("c{}", i),
        });
    }
    v
}

thread_local! {
    /// (`win`, `zero`) of the unit being run: steps `t >= win` carry fixed constants instead of symbolic inputs
    /// (long series with a symbolic window); the inputs named in `zero` are the constant +0.0
    static SERIES: std::cell::RefCell<(usize, Vec<String>)> = std::cell::RefCell::new((usize::MAX, vec![]));
    /// `dom=<lo>:<hi>` of the unit being run: energy values are +0 or in [lo, hi] instead of [0.01, 1e6]
    static DOM: std::cell::RefCell<Option<(f32, f32)>> = std::cell::RefCell::new(None);
}

/// Read the unit parameters `win=<k>` and `zero=<name>,<name>..` (see `line_value`).
pub fn configure(u: &Unit) {
    let win = u.get("win").parse::<usize>().unwrap_or(usize::MAX);
    let zero: Vec<String> = u.get("zero").split(',').filter(|s| !s.is_empty()).map(|s| s.to_string()).collect();
    SERIES.with(|s| *s.borrow_mut() = (win, zero));
    let dom = u.get("dom").split_once(':').and_then(|(a, b)| Some((a.parse::<f32>().ok()?, b.parse::<f32>().ok()?)));
    DOM.with(|d| *d.borrow_mut() = dom);
}

/// the unit's `dom=` override, if any
pub fn dom_override() -> Option<(f32, f32)> {
    DOM.with(|d| *d.borrow())
}

/// Constant carried by line `stem` at a step outside the symbolic window: a fixed table indexed by a hash of the
/// name, exactly representable, with zeros, equal neighbours and a wide range so that production above, equal to
/// and below the use all occur along the series.
fn series_constant(stem: &str, t: usize, dom: Dom) -> f32 {
    const TABLE: [f32; 12] = [0.0, 12.5, 40.0, 100.0, 7.25, 250.0, 0.0, 64.0, 100.0, 3.5, 18.75, 512.0];
    let mut h: u64 = 0xcbf29ce484222325;
    for b in stem.bytes().chain([t as u8, (t >> 8) as u8]) {
        h = (h ^ b as u64).wrapping_mul(0x100000001b3);
    }
    let v = TABLE[(h % 12) as usize];
    match dom {
        Dom::EnergyPos if v == 0.0 => 1.5,
        Dom::EnergySigned if (h >> 20) & 1 == 1 => -v,
        _ => v,
    }
}

/// Input value (as F) of line `l` at step `t`; `sfx` distinguishes several evaluations.
pub fn line_value(l: &LineT, t: usize) -> F {
    let name = format!("{}_{}", l.stem, t);
    let (win, is_zero) = SERIES.with(|s| {
        let s = s.borrow();
        (s.0, s.1.iter().any(|z| *z == name))
    });
    if is_zero {
        return k(0.0);
    }
    if t >= win {
        return k(series_constant(&l.stem, t, l.dom));
    }
    input(&name, l.dom)
}

/// Render one line with the given value tokens.
pub fn render_line(l: &LineT, vals: &[String]) -> String {
    let idp = match l.id {
        Some(i) => format!("{}, ", i),
        None => String::new(),
    };
    let vals = vals.join(", ");
    // `{HASH}` in a shape comment stands for a '#' inside the comment text
    let c = if l.comment.is_empty() { String::new() } else { format!(" # {}", l.comment.replace("{HASH}", "#")) };
    match l.kind {
        'U' => format!("{}CONSUMO, {}, {}, {}{}", idp, l.a, l.b, vals, c),
        'P' => format!("{}PRODUCCION, {}, {}{}", idp, l.a, vals, c),
        'X' => format!("{}AUX, {}{}", idp, vals, c),
        'O' => format!("{}SALIDA, {}, {}{}", if l.id.is_some() { idp } else { "0, ".to_string() }, l.a, vals, c),
        'D' => format!("DEMANDA, {}, {}{}", l.a, vals, c),
        k => panic!("unknown line kind {}", k),
    }
}

/// Components text of a shape with `n` steps; values are inputs named `c<i>_<t>`.
pub fn shape_text(lines: &[LineT], n: usize) -> String {
    let mut s = String::new();
    for l in lines {
        let vals: Vec<String> = (0..n).map(|t| format!("{}", line_value(l, t))).collect();
        s.push_str(&render_line(l, &vals));
        s.push('\n');
    }
    s
}

/// The value matrix of a shape (line x step) as scalars.
pub fn shape_values(lines: &[LineT], n: usize) -> Vec<Vec<F>> {
    lines.iter().map(|l| (0..n).map(|t| line_value(l, t)).collect()).collect()
}

// ------------------------------------------------------------------ factor sets

pub const LOCS: [(&str, &str); 4] = [("PEN", "PENINSULA"), ("BAL", "BALEARES"), ("CAN", "CANARIAS"), ("CEU", "CEUTAMELILLA")];

pub fn no_user() -> UserWF<Option<RenNrenCo2>> {
    UserWF { red1: None, red2: None }
}

/// Factor set by code: PEN/BAL/CAN/CEU (regulatory), SYM (user file, every value symbolic).
pub fn factors(code: &str, carriers: &[&str]) -> std::result::Result<Factors, error::EpbdError> {
    if let Some((_, loc)) = LOCS.iter().find(|(c, _)| *c == code) {
        return cte::wfactors_from_loc(loc, &cte::CTE_LOCWF_RITE2014, no_user(), cte::CTE_USERWF);
    }
    match code {
        "SYM" => cte::wfactors_from_str(&sym_factor_text(carriers), no_user(), cte::CTE_USERWF),
        "FULL" => cte::wfactors_from_str(&full_factor_text(carriers), no_user(), cte::CTE_USERWF),
        other => panic!("unknown factor set {}", other),
    }
}

/// A user factor file in which every (carrier, source, dest, step) triple has its own variables.
pub fn sym_factor_text(carriers: &[&str]) -> String {
    let f = Dom::Range(0.0, 10.0);
    let mut s = String::new();
    let mut line = |cr: &str, src: &str, dst: &str, step: &str| {
        let stem = format!("f_{}_{}_{}_{}", cr, src, dst, step);
        s.push_str(&format!(
            "{}, {}, {}, {}, {}, {}, {}\n",
            cr,
            src,
            dst,
            step,
            tok(&format!("{}_ren", stem), f),
            tok(&format!("{}_nren", stem), f),
            tok(&format!("{}_co2", stem), f)
        ));
    };
    // the implementation refuses any factor set without an electricity grid factor
    let mut carriers: Vec<&str> = carriers.to_vec();
    if !carriers.contains(&"ELECTRICIDAD") {
        carriers.push("ELECTRICIDAD");
    }
    for cr in &carriers {
        line(cr, "RED", "SUMINISTRO", "A");
        if *cr == "ELECTRICIDAD" {
            for dst in ["A_RED", "A_NEPB"] {
                for step in ["A", "B"] {
                    line(cr, "INSITU", dst, step);
                }
            }
        }
    }
    s
}

/// A user factor file that spells out every factor the method can look up (grid supply, on-site and cogeneration
/// supply and the four export factors of every source), each with its own variables: nothing is left to defaults, so a
/// value that the implementation replaces, ignores or recomputes shows.
pub fn full_factor_text(carriers: &[&str]) -> String {
    let f = Dom::Range(0.0, 10.0);
    let mut s = sym_factor_text(carriers);
    let mut line = |cr: &str, src: &str, dst: &str, step: &str| {
        let stem = format!("f_{}_{}_{}_{}", cr, src, dst, step);
        s.push_str(&format!("{}, {}, {}, {}, {}, {}, {}\n", cr, src, dst, step, tok(&format!("{}_ren", stem), f), tok(&format!("{}_nren", stem), f), tok(&format!("{}_co2", stem), f)));
    };
    line("ELECTRICIDAD", "COGEN", "SUMINISTRO", "A");
    // step B grid supply lines: accepted by the parser, not used by the method
    for cr in carriers.iter().chain(["ELECTRICIDAD"].iter()) {
        if *cr != "EAMBIENTE" && *cr != "TERMOSOLAR" {
            line(cr, "RED", "SUMINISTRO", "B");
        }
    }
    for dst in ["A_RED", "A_NEPB"] {
        for step in ["A", "B"] {
            line("ELECTRICIDAD", "COGEN", dst, step);
        }
    }
    for cr in ["EAMBIENTE", "TERMOSOLAR"] {
        if carriers.contains(&cr) {
            for dst in ["A_RED", "A_NEPB"] {
                for step in ["A", "B"] {
                    line(cr, "INSITU", dst, step);
                }
            }
        }
    }
    s
}

pub fn carriers_of(lines: &[LineT]) -> Vec<&str> {
    let mut v: Vec<&str> = vec![];
    for l in lines {
        let c: Option<&str> = match l.kind {
            'U' => Some(l.b.as_str()),
            'P' => Some(match l.a.as_str() {
                "EL_INSITU" | "EL_COGEN" => "ELECTRICIDAD",
                x => x,
            }),
            'X' => Some("ELECTRICIDAD"),
            _ => None,
        };
        if let Some(c) = c {
            if !v.contains(&c) {
                v.push(c);
            }
        }
    }
    v
}

pub fn err_kind(e: &error::EpbdError) -> &'static str {
    match e {
        error::EpbdError::ParseError(_) => "err:ParseError",
        error::EpbdError::WrongInput(_) => "err:WrongInput",
        error::EpbdError::MissingFactor(_) => "err:MissingFactor",
    }
}

// ------------------------------------------------------------------ recording result leaves

pub fn sorted_kv<'a, K: Debug + 'a, V: 'a>(it: impl Iterator<Item = (&'a K, &'a V)>) -> Vec<(String, &'a V)> {
    let mut v: Vec<(String, &V)> = it.map(|(k, v)| (format!("{:?}", k), v)).collect();
    v.sort_by(|a, b| a.0.cmp(&b.0));
    v
}

pub fn rec_r(p: &str, v: &RenNrenCo2) {
    out(&format!("{}.ren", p), v.ren);
    out(&format!("{}.nren", p), v.nren);
    out(&format!("{}.co2", p), v.co2);
}
pub fn rec_v(p: &str, v: &[F]) {
    for (i, x) in v.iter().enumerate() {
        out(&format!("{}[{}]", p, i), *x);
    }
}

/// Record every numeric leaf of a per-carrier balance (exhaustive destructuring: a new field
/// breaks the build of the harness instead of being skipped silently).
pub fn rec_balance_cr(p: &str, b: &BalanceCarrier) {
    let BalanceCarrier { carrier: _, f_match, used, prod, exp, del, we } = b;
    rec_v(&format!("{}.f_match", p), f_match);
    let UsedEnergy { epus_t, epus_by_srv_t, epus_an, epus_by_srv_an, nepus_t, nepus_an, cgnus_t, cgnus_an } = used;
    rec_v(&format!("{}.used.epus_t", p), epus_t);
    for (s, v) in sorted_kv(epus_by_srv_t.iter()) {
        rec_v(&format!("{}.used.epus_by_srv_t.{}", p, s), v);
    }
    out(&format!("{}.used.epus_an", p), *epus_an);
    for (s, v) in sorted_kv(epus_by_srv_an.iter()) {
        out(&format!("{}.used.epus_by_srv_an.{}", p, s), *v);
    }
    rec_v(&format!("{}.used.nepus_t", p), nepus_t);
    out(&format!("{}.used.nepus_an", p), *nepus_an);
    rec_v(&format!("{}.used.cgnus_t", p), cgnus_t);
    out(&format!("{}.used.cgnus_an", p), *cgnus_an);
    let ProducedEnergy { t, an, by_src_t, by_src_an, epus_t, epus_an, epus_by_src_t, epus_by_src_an, epus_by_srv_by_src_t, epus_by_srv_by_src_an } = prod;
    rec_v(&format!("{}.prod.t", p), t);
    out(&format!("{}.prod.an", p), *an);
    for (s, v) in sorted_kv(by_src_t.iter()) {
        rec_v(&format!("{}.prod.by_src_t.{}", p, s), v);
    }
    for (s, v) in sorted_kv(by_src_an.iter()) {
        out(&format!("{}.prod.by_src_an.{}", p, s), *v);
    }
    rec_v(&format!("{}.prod.epus_t", p), epus_t);
    out(&format!("{}.prod.epus_an", p), *epus_an);
    for (s, v) in sorted_kv(epus_by_src_t.iter()) {
        rec_v(&format!("{}.prod.epus_by_src_t.{}", p, s), v);
    }
    for (s, v) in sorted_kv(epus_by_src_an.iter()) {
        out(&format!("{}.prod.epus_by_src_an.{}", p, s), *v);
    }
    for (s, m) in sorted_kv(epus_by_srv_by_src_t.iter()) {
        for (sv, v) in sorted_kv(m.iter()) {
            rec_v(&format!("{}.prod.epus_by_srv_by_src_t.{}.{}", p, s, sv), v);
        }
    }
    for (s, m) in sorted_kv(epus_by_srv_by_src_an.iter()) {
        for (sv, v) in sorted_kv(m.iter()) {
            out(&format!("{}.prod.epus_by_srv_by_src_an.{}.{}", p, s, sv), *v);
        }
    }
    let ExportedEnergy { t, an, grid_t, grid_an, nepus_t, nepus_an, by_src_t, by_src_an } = exp;
    rec_v(&format!("{}.exp.t", p), t);
    out(&format!("{}.exp.an", p), *an);
    rec_v(&format!("{}.exp.grid_t", p), grid_t);
    out(&format!("{}.exp.grid_an", p), *grid_an);
    rec_v(&format!("{}.exp.nepus_t", p), nepus_t);
    out(&format!("{}.exp.nepus_an", p), *nepus_an);
    for (s, v) in sorted_kv(by_src_t.iter()) {
        rec_v(&format!("{}.exp.by_src_t.{}", p, s), v);
    }
    for (s, v) in sorted_kv(by_src_an.iter()) {
        out(&format!("{}.exp.by_src_an.{}", p, s), *v);
    }
    let DeliveredEnergy { an, grid_t, grid_an, onst_t, onst_an, cgn_t, cgn_an } = del;
    out(&format!("{}.del.an", p), *an);
    rec_v(&format!("{}.del.grid_t", p), grid_t);
    out(&format!("{}.del.grid_an", p), *grid_an);
    rec_v(&format!("{}.del.onst_t", p), onst_t);
    out(&format!("{}.del.onst_an", p), *onst_an);
    rec_v(&format!("{}.del.cgn_t", p), cgn_t);
    out(&format!("{}.del.cgn_an", p), *cgn_an);
    let WeightedEnergy { b, b_by_srv, a, a_by_srv, del, del_grid, del_onst, del_cgn, exp, exp_a, exp_nepus_a, exp_grid_a, exp_nepus_ab, exp_grid_ab, exp_ab } = we;
    rec_r(&format!("{}.we.b", p), b);
    for (s, v) in sorted_kv(b_by_srv.iter()) {
        rec_r(&format!("{}.we.b_by_srv.{}", p, s), v);
    }
    rec_r(&format!("{}.we.a", p), a);
    for (s, v) in sorted_kv(a_by_srv.iter()) {
        rec_r(&format!("{}.we.a_by_srv.{}", p, s), v);
    }
    rec_r(&format!("{}.we.del", p), del);
    rec_r(&format!("{}.we.del_grid", p), del_grid);
    rec_r(&format!("{}.we.del_onst", p), del_onst);
    rec_r(&format!("{}.we.del_cgn", p), del_cgn);
    rec_r(&format!("{}.we.exp", p), exp);
    rec_r(&format!("{}.we.exp_a", p), exp_a);
    rec_r(&format!("{}.we.exp_nepus_a", p), exp_nepus_a);
    rec_r(&format!("{}.we.exp_grid_a", p), exp_grid_a);
    rec_r(&format!("{}.we.exp_nepus_ab", p), exp_nepus_ab);
    rec_r(&format!("{}.we.exp_grid_ab", p), exp_grid_ab);
    rec_r(&format!("{}.we.exp_ab", p), exp_ab);
}

pub fn rec_balance(p: &str, b: &Balance) {
    let Balance { needs, used, prod, del, exp, we } = b;
    // BalNeeds and BalWeighted are not exported by the crate: their fields are read by name
    for (n, v) in [("ACS", &needs.ACS), ("CAL", &needs.CAL), ("REF", &needs.REF)] {
        if let Some(v) = v {
            out(&format!("{}.needs.{}", p, n), *v);
        }
    }
    let BalUsed { nepus, epus, cgnus, epus_by_srv, epus_by_cr, epus_by_cr_by_srv } = used;
    out(&format!("{}.used.nepus", p), *nepus);
    out(&format!("{}.used.epus", p), *epus);
    out(&format!("{}.used.cgnus", p), *cgnus);
    for (s, v) in sorted_kv(epus_by_srv.iter()) {
        out(&format!("{}.used.epus_by_srv.{}", p, s), *v);
    }
    for (s, v) in sorted_kv(epus_by_cr.iter()) {
        out(&format!("{}.used.epus_by_cr.{}", p, s), *v);
    }
    for (s, m) in sorted_kv(epus_by_cr_by_srv.iter()) {
        for (c, v) in sorted_kv(m.iter()) {
            out(&format!("{}.used.epus_by_cr_by_srv.{}.{}", p, s, c), *v);
        }
    }
    let BalProd { an, by_cr, by_src, epus_by_src, epus_by_srv_by_src } = prod;
    out(&format!("{}.prod.an", p), *an);
    for (s, v) in sorted_kv(by_cr.iter()) {
        out(&format!("{}.prod.by_cr.{}", p, s), *v);
    }
    for (s, v) in sorted_kv(by_src.iter()) {
        out(&format!("{}.prod.by_src.{}", p, s), *v);
    }
    for (s, v) in sorted_kv(epus_by_src.iter()) {
        out(&format!("{}.prod.epus_by_src.{}", p, s), *v);
    }
    for (s, m) in sorted_kv(epus_by_srv_by_src.iter()) {
        for (c, v) in sorted_kv(m.iter()) {
            out(&format!("{}.prod.epus_by_srv_by_src.{}.{}", p, s, c), *v);
        }
    }
    let BalDel { an, onst, grid, grid_by_cr } = del;
    out(&format!("{}.del.an", p), *an);
    out(&format!("{}.del.onst", p), *onst);
    out(&format!("{}.del.grid", p), *grid);
    for (s, v) in sorted_kv(grid_by_cr.iter()) {
        out(&format!("{}.del.grid_by_cr.{}", p, s), *v);
    }
    let BalExp { an, grid, nepus } = exp;
    out(&format!("{}.exp.an", p), *an);
    out(&format!("{}.exp.grid", p), *grid);
    out(&format!("{}.exp.nepus", p), *nepus);
    let (a, a_by_srv, b, b_by_srv, del, exp_a, exp) = (&we.a, &we.a_by_srv, &we.b, &we.b_by_srv, &we.del, &we.exp_a, &we.exp);
    rec_r(&format!("{}.we.a", p), a);
    for (s, v) in sorted_kv(a_by_srv.iter()) {
        rec_r(&format!("{}.we.a_by_srv.{}", p, s), v);
    }
    rec_r(&format!("{}.we.b", p), b);
    for (s, v) in sorted_kv(b_by_srv.iter()) {
        rec_r(&format!("{}.we.b_by_srv.{}", p, s), v);
    }
    rec_r(&format!("{}.we.del", p), del);
    rec_r(&format!("{}.we.exp_a", p), exp_a);
    rec_r(&format!("{}.we.exp", p), exp);
}

pub fn rec_ep(p: &str, ep: &EnergyPerformance) {
    let EnergyPerformance { components: _, wfactors: _, k_exp, arearef, balance_cr, balance, balance_m2, rer, rer_nrb, rer_onst, misc: _ } = ep;
    out(&format!("{}.k_exp", p), *k_exp);
    out(&format!("{}.arearef", p), *arearef);
    out(&format!("{}.rer", p), *rer);
    out(&format!("{}.rer_nrb", p), *rer_nrb);
    out(&format!("{}.rer_onst", p), *rer_onst);
    for (c, b) in sorted_kv(balance_cr.iter()) {
        rec_balance_cr(&format!("{}.cr.{}", p, c), b);
    }
    rec_balance(&format!("{}.bal", p), balance);
    rec_balance(&format!("{}.m2", p), balance_m2);
}

/// Standard evaluation of a unit: parse the shape text, prepare factors, evaluate.
pub struct Eval {
    pub lines: Vec<LineT>,
    pub n: usize,
    pub comps: Components,
    pub fp: Factors,
    pub kexp: F,
    pub area: F,
    pub lm: bool,
}

pub fn scalar_param(u: &Unit, key: &str, name: &str, dom: Dom, default: f32) -> F {
    match u.get(key) {
        "" => k(default),
        "sym" => input(name, dom),
        v => k(v.parse::<f32>().expect("numeric unit parameter")),
    }
}

pub fn prepare(u: &Unit) -> std::result::Result<Eval, String> {
    let lines = parse_shape(u.get("shape"));
    let n = u.n();
    let text = shape_text(&lines, n);
    spec(false);
    let comps = text.parse::<Components>().map_err(|e| err_kind(&e).to_string())?;
    let fp = factors(u.get_or("fs", "PEN"), &carriers_of(&lines)).map_err(|e| err_kind(&e).to_string())?;
    let kexp = scalar_param(u, "k", "kexp", Dom::Range(0.0, 1.0), 0.0);
    let area = scalar_param(u, "a", "area", Dom::Range(0.001, 1.0e6), 1.0);
    Ok(Eval { lines, n, comps, fp, kexp, area, lm: u.lm() })
}

pub fn evaluate(e: &Eval) -> std::result::Result<EnergyPerformance, String> {
    spec(false);
    let r = energy_performance(&e.comps, &e.fp, e.kexp, e.area, e.lm).map_err(|x| err_kind(&x).to_string());
    spec(true);
    r
}

/// Evaluate with explicit parameters (several evaluations of the same inputs in one path context).
pub fn evaluate_with(e: &Eval, fp: &Factors, kexp: F, area: F, lm: bool) -> std::result::Result<EnergyPerformance, String> {
    spec(false);
    let r = energy_performance(&e.comps, fp, kexp, area, lm).map_err(|x| err_kind(&x).to_string());
    spec(true);
    r
}

pub fn f() -> B {
    <B as Logic>::f()
}

/// look up a map entry by the Debug name of its key (works for the std map and for the model)
#[macro_export]
macro_rules! by_name {
    ($map:expr, $name:expr) => {
        $map.iter().find(|(k, _)| format!("{:?}", k) == $name).map(|(_, v)| v)
    };
}

/// All numeric leaves of an EnergyPerformance, as (name, value) pairs (through the recorder).
pub fn leaves(ep: &EnergyPerformance) -> Vec<(String, F)> {
    LEAVES.with(|l| l.borrow_mut().replace(vec![]));
    rec_ep("", ep);
    LEAVES.with(|l| l.borrow_mut().take().unwrap())
}

thread_local! {
    pub static LEAVES: std::cell::RefCell<Option<Vec<(String, F)>>> = std::cell::RefCell::new(None);
}

// ------------------------------------------------------------------ shape catalogue (DESIGN.md 3.3)

fn mix64(x: &mut u64) -> u64 {
    *x = x.wrapping_add(0x9E3779B97F4A7C15);
    let mut z = *x;
    z = (z ^ (z >> 30)).wrapping_mul(0xBF58476D1CE4E5B9);
    z = (z ^ (z >> 27)).wrapping_mul(0x94D049BB133111EB);
    z ^ (z >> 31)
}

/// `count` pseudo-random multisets of 2-4 system blocks (seed-selected slice of the catalogue): the blocks are
/// the ones of DESIGN.md 3.3; `allow` filters block kinds by name.
pub fn catalogue(seed: u64, count: usize, allow: &[&str]) -> Vec<String> {
    let blocks: &[(&str, &[&str])] = &[
        ("EL", &["U:CAL:ELECTRICIDAD", "U:ACS:ELECTRICIDAD", "U:ILU:ELECTRICIDAD", "2/U:REF:ELECTRICIDAD", "U:VEN:ELECTRICIDAD", "-2/U:ILU:ELECTRICIDAD;-2/U:VEN:ELECTRICIDAD", "9/U:REF:ELECTRICIDAD;9/U:CAL:ELECTRICIDAD"]),
        ("NEPB", &["U:NEPB:ELECTRICIDAD", "U:NEPB:GASNATURAL", "U:NEPB:EAMBIENTE"]),
        ("PV", &["P:EL_INSITU", "2/P:EL_INSITU", "P:EL_INSITU;3/P:EL_INSITU"]),
        ("CHP", &["P:EL_COGEN;U:COGEN:GASNATURAL", "1/P:EL_COGEN;1/U:COGEN:BIOMASA", "P:EL_COGEN;U:COGEN:GASNATURAL;U:COGEN:BIOMASA"]),
        ("HP", &["1/U:ACS:ELECTRICIDAD;1/U:ACS:EAMBIENTE", "2/U:CAL:EAMBIENTE;2/P:EAMBIENTE", "0/P:EAMBIENTE;3/U:CAL:EAMBIENTE", "U:ACS:EAMBIENTE;P:EAMBIENTE;U:NEPB:EAMBIENTE"]),
        ("ST", &["U:ACS:TERMOSOLAR", "U:ACS:TERMOSOLAR;P:TERMOSOLAR", "-1/U:ACS:TERMOSOLAR;P:TERMOSOLAR"]),
        ("FUEL", &["U:CAL:GASNATURAL", "U:ACS:BIOMASA", "U:CAL:RED1", "U:ACS:GASOLEO;U:CAL:GASOLEO", "U:CAL:RED2", "U:ACS:BIOMASADENSIFICADA", "U:CAL:GLP;U:NEPB:GLP", "U:CAL:CARBON;U:ACS:BIOCARBURANTE"]),
        ("AUX", &["4/U:CAL:GASNATURAL;4/X", "5/U:CAL:GASNATURAL;5/U:ACS:GASNATURAL;5/X;5/~O:CAL;5/~O:ACS", "6/U:REF:ELECTRICIDAD;6/U:CAL:ELECTRICIDAD;6/X;6/O:REF;6/~O:CAL"]),
        ("DEM", &["D:ACS", "D:CAL;D:REF"]),
    ];
    let usable: Vec<&(&str, &[&str])> = blocks.iter().filter(|b| allow.is_empty() || allow.contains(&b.0)).collect();
    let mut s = seed.wrapping_mul(0x2545F4914F6CDD1D) ^ 0x1234_5678;
    let mut out = vec![];
    let mut guard = 0;
    while out.len() < count && guard < 1000 {
        guard += 1;
        let nb = 2 + (mix64(&mut s) % 3) as usize;
        let mut parts: Vec<&str> = vec![];
        let mut kinds: Vec<&str> = vec![];
        for _ in 0..nb {
            let b = usable[(mix64(&mut s) % usable.len() as u64) as usize];
            if kinds.contains(&b.0) && b.0 != "AUX" && b.0 != "HP" {
                continue;
            }
            kinds.push(b.0);
            parts.push(b.1[(mix64(&mut s) % b.1.len() as u64) as usize]);
        }
        let shape = parts.join(";");
        // a building needs at least one energy line
        if shape.contains("U:") && shape.split(';').count() <= 8 && !out.contains(&shape) {
            out.push(shape);
        }
    }
    out
}
