//! Concolic path exploration (generational search) and the decision ladder for obligations.
//!
//! Every explored path is driven by a concrete witness (an assignment of all inputs), so a
//! path is feasible by construction.  After a run, every *new* branch decision is flipped:
//! `domains ∧ cone(PC[0..i)) ∧ ¬atom_i` is sent to the solver; `sat` yields the witness of a
//! new path, `unsat` prunes the side, anything else is recorded as an unexplored branch.

use crate::bx::Bx;
use crate::dag::{self, Ctx, Decision, Dom, Kind};
use crate::smt::{build_query, Solver, Verdict};
use serde::Serialize;
use std::collections::BTreeMap;
use std::collections::HashMap as StdMap;
use std::panic::{catch_unwind, AssertUnwindSafe};
use std::time::Instant;

#[derive(Clone, Debug)]
pub struct Opts {
    pub seed: u64,
    pub timeout_s: u64,
    pub max_paths: usize,
    pub simplify: bool,
    pub verbose: bool,
    /// wall-clock budget for one unit; exploration stops (reported as truncated) beyond it
    pub budget_s: f64,
    /// report every unclassified branch side as unexplored (properties about outcomes: C16)
    pub strict_unexplored: bool,
    /// solver cap for flipping "late" decisions (see run_unit)
    pub late_timeout_s: u64,
    /// concurrent solver processes for the flip queries of one path
    pub threads: usize,
    /// cap for flipping a decision that obligations depend on (witnesses of feasible sides are found in seconds;
    /// proving a side infeasible can be as hard as any obligation and is given up earlier in the quick tier)
    pub flip_timeout_s: u64,
    /// also try reduced-width candidates for branch sides no full-width query reaches (thorough tier)
    pub narrow_flips: bool,
}

impl Default for Opts {
    fn default() -> Self {
        Opts { seed: 0, timeout_s: 30, max_paths: 20000, simplify: true, verbose: false, budget_s: 1.0e9, strict_unexplored: false, late_timeout_s: 2, threads: 4, flip_timeout_s: 30, narrow_flips: false }
    }
}

#[derive(Clone, Debug, Serialize)]
pub struct ObReport {
    pub name: String,
    /// holds | violated | undecided
    pub verdict: String,
    /// identity | interval | solver | witness | solver-cex | timeout ...
    pub how: String,
    pub time_s: f64,
    #[serde(skip_serializing_if = "Option::is_none")]
    pub cex: Option<BTreeMap<String, String>>,
    #[serde(skip_serializing_if = "Option::is_none")]
    pub detail: Option<String>,
    /// number of leading decisions of the path the verdict depends on (0 for identity / interval facts
    /// that hold for the whole regime)
    pub prefix: usize,
}

#[derive(Clone, Debug, Serialize)]
pub struct PathReport {
    pub idx: usize,
    pub decisions: usize,
    pub branch_decisions: usize,
    pub nodes: usize,
    pub outcome: String,
    /// input name -> f32 bits (hex)
    pub witness: BTreeMap<String, String>,
    /// output name -> f32 bits (hex) under the witness
    pub outs: Vec<(String, String)>,
    pub obs: Vec<ObReport>,
    pub pc: Vec<String>,
}

#[derive(Clone, Debug, Default, Serialize)]
pub struct UnitStats {
    pub paths: usize,
    pub panics: usize,
    pub decisions: usize,
    pub flips_sat: usize,
    pub flips_unsat: usize,
    pub flips_unknown: usize,
    pub flips_regime: usize,
    /// decisions after the last program point an obligation refers to (not explored)
    pub flips_late_unknown: usize,
    /// flipped sides whose witness came from the pool of earlier witnesses / simple mutations (no query)
    pub flips_pool: usize,
    /// flipped sides whose witness came from a reduced-width query and reproduced in binary32
    pub flips_narrow: usize,
    pub truncated: bool,
    pub ob_total: usize,
    pub ob_identity: usize,
    pub ob_interval: usize,
    pub ob_lemma: usize,
    pub ob_solver: usize,
    pub lemmas_used: BTreeMap<String, u64>,
    pub ob_violated: usize,
    pub ob_undecided: usize,
    /// of the undecided ones: hold over the reduced-width float format
    pub ob_reduced_width: usize,
    pub narrow_queries: u64,
    pub narrow_unsat: u64,
    pub narrow_sat: u64,
    pub narrow_time_s: f64,
    pub narrow_cross_checked: u64,
    pub narrow_cross_disagree: u64,
    pub solver_queries: u64,
    pub solver_cache_hits: u64,
    pub solver_unsat: u64,
    pub solver_sat: u64,
    pub solver_unknown: u64,
    pub solver_time_s: f64,
    pub solver_max_time_s: f64,
    pub cross_checked: u64,
    pub cross_disagree: u64,
    /// queries cvc5 gave up on that CBMC + kissat decided (thorough tier)
    pub cbmc_decided: u64,
    pub decided_by_interval: u64,
    pub decided_by_cache: u64,
    pub simplified_nodes: u64,
    /// power-of-two scaling rewrites (exactness assumed, validated per witness)
    pub scale_rewrites: u64,
    pub wall_s: f64,
    pub internal_errors: Vec<String>,
    pub unexplored: Vec<String>,
    /// branch sides that could not be classified but on which no obligation of the property depends
    pub unexplored_benign: Vec<String>,
}

#[derive(Clone, Debug, Serialize)]
pub struct UnitReport {
    pub unit: String,
    pub stats: UnitStats,
    pub paths: Vec<PathReport>,
}

thread_local! {
    static PANIC_INFO: std::cell::RefCell<Option<String>> = std::cell::RefCell::new(None);
}

pub fn install_panic_hook() {
    std::panic::set_hook(Box::new(|info| {
        let loc = info.location().map(|l| format!("{}:{}", l.file(), l.line())).unwrap_or_default();
        let msg = if let Some(s) = info.payload().downcast_ref::<&str>() {
            s.to_string()
        } else if let Some(s) = info.payload().downcast_ref::<String>() {
            s.clone()
        } else {
            String::new()
        };
        PANIC_INFO.with(|p| *p.borrow_mut() = Some(format!("{} [{}]", loc, msg.chars().take(120).collect::<String>())));
    }));
}

fn hexmap(w: &StdMap<String, u32>) -> BTreeMap<String, String> {
    w.iter().map(|(k, v)| (k.clone(), format!("{:08x}", v))).collect()
}

fn fmt_atom(c: &Ctx, d: &Decision) -> String {
    let t = |a: dag::Arg| match a {
        dag::Arg::K(b) => format!("{}", f32::from_bits(b)),
        dag::Arg::N(i) => {
            if let Some(v) = c.vars.iter().find(|v| v.node == i) {
                v.name.clone()
            } else {
                format!("#{}", i)
            }
        }
    };
    format!("{}{:?}({},{})", if d.side { "" } else { "!" }, d.cmp, t(d.a), t(d.b))
}

/// Alternative witness value for the flipped regime of input `name`.
fn regime_flip(c: &Ctx, d: &Decision, seed: u64) -> Option<(String, u32)> {
    let node = match d.a {
        dag::Arg::N(i) => i,
        _ => return None,
    };
    let vi = c.vars.iter().find(|v| v.node == node)?;
    let cur = c.val[node as usize];
    let v = match (d.cmp, d.side) {
        (dag::Cmp::Eq, true) => {
            // currently zero -> make it a generic non-zero value
            let mut x = dag::default_value(&vi.name, Dom::EnergyPos, seed ^ 0x5bd1e995);
            if x == 0.0 {
                x = 1.0;
            }
            if vi.lo > 0.0 && vi.hi.is_finite() {
                x = x.max(vi.lo).min(vi.hi);
            }
            x
        }
        (dag::Cmp::Eq, false) => 0.0,
        (dag::Cmp::Lt, _) => -cur,
        _ => return None,
    };
    Some((vi.name.clone(), v.to_bits()))
}

pub struct Explorer {
    pub opts: Opts,
    pub solver: Solver,
    /// number of leading decisions used by the last solver-decided formula
    last_prefix: usize,
    /// phase 3: the reduced-width fall-back is consulted for what full width gave up on
    narrow_now: bool,
    /// other assignments that follow the current path (see `make_variants`); None: not computed yet for this path
    variants: Option<Vec<(StdMap<String, u32>, Vec<f32>)>>,
    pool_snapshot: Vec<StdMap<String, u32>>,
}

impl Explorer {
    pub fn new(opts: Opts) -> Explorer {
        let solver = Solver::new(opts.timeout_s);
        Explorer { opts, solver, last_prefix: 0, narrow_now: false, variants: None, pool_snapshot: vec![] }
    }

    /// A witness for `PC[0..i) ∧ ¬atom_i` among earlier witnesses of the unit and simple mutations of
    /// the current one (an input set to another input's value, to the ends of its domain).
    fn pool_flip(&self, c: &Ctx, i: usize, pool: &[StdMap<String, u32>]) -> Option<StdMap<String, u32>> {
        let d = &c.trace[i];
        let ok = |w: &StdMap<String, u32>| -> bool {
            let vals = c.eval_all(w);
            let g = |x: dag::Arg| match x {
                dag::Arg::K(b) => f32::from_bits(b),
                dag::Arg::N(j) => vals[j as usize],
            };
            // inputs must stay inside their (regime-restricted) domains
            for v in &c.vars {
                let x = vals[v.node as usize];
                if v.dom != Dom::AnyBits && !((x >= v.lo && x <= v.hi) || (v.zero_ok && x == 0.0 && x.is_sign_positive())) {
                    return false;
                }
            }
            c.trace[..i].iter().all(|t| dag::apply_cmp(t.cmp, g(t.a), g(t.b)) == t.side) && dag::apply_cmp(d.cmp, g(d.a), g(d.b)) != d.side
        };
        for w in pool.iter().rev().take(64) {
            if ok(w) {
                let mut m = c.witness.clone();
                for (k, v) in w {
                    if m.contains_key(k) {
                        m.insert(k.clone(), *v);
                    }
                }
                if ok(&m) {
                    return Some(m);
                }
            }
        }
        let names: Vec<String> = dag::vs_iter(&d.vars).filter(|j| *j < c.vars.len()).map(|j| c.vars[j].name.clone()).collect();
        if names.len() <= 8 {
            for a in &names {
                let mut cands: Vec<u32> = names.iter().filter(|b| *b != a).filter_map(|b| c.witness.get(b).copied()).collect();
                if let Some(v) = c.vars.iter().find(|v| &v.name == a) {
                    if v.dom == Dom::AnyBits {
                        // the special values of binary32 and the negation of the other inputs (sums that cancel)
                        let others: Vec<u32> = cands.iter().map(|b| b ^ 0x8000_0000).collect();
                        cands.extend(others);
                        for x in [0.0f32, -0.0, 1.0, -1.0, 0.5, 2.0, 0.001, 0.01, f32::NAN, f32::INFINITY, f32::NEG_INFINITY, f32::MAX, f32::MIN, f32::MIN_POSITIVE, 1.0e-45, f32::EPSILON, 16_777_216.0, 2_147_483_648.0] {
                            cands.push(x.to_bits());
                        }
                    } else if v.lo.is_finite() && v.hi.is_finite() {
                        cands.push(v.lo.to_bits());
                        cands.push(v.hi.to_bits());
                    }
                }
                for bits in cands {
                    let mut m = c.witness.clone();
                    m.insert(a.clone(), bits);
                    if ok(&m) {
                        return Some(m);
                    }
                }
            }
        }
        None
    }

    /// Cheap counterexample candidates for the obligations the proof rungs leave open: assignments that follow the
    /// same path as the witness (domains and the whole path condition hold when re-evaluated on the DAG) — earlier
    /// witnesses of the unit, one input set to a multiple of another or to an end of its domain, and a seeded
    /// pseudo-random draw.  They can only *refute* (a refuting one is replayed natively like any solver model);
    /// "holds" still comes from identity, lemmas or the solver alone.
    fn make_variants(&mut self, c: &Ctx) {
        let mut out: Vec<(StdMap<String, u32>, Vec<f32>)> = vec![];
        let vars: Vec<&dag::VarInfo> = c.vars.iter().filter(|v| v.dom != Dom::AnyBits).collect();
        if vars.is_empty() {
            self.variants = Some(out);
            return;
        }
        let mut cands: Vec<StdMap<String, u32>> = vec![];
        for w in self.pool_snapshot.iter().rev().take(24) {
            let mut m = c.witness.clone();
            for (k, v) in w {
                if m.contains_key(k) {
                    m.insert(k.clone(), *v);
                }
            }
            cands.push(m);
        }
        let cur = |v: &dag::VarInfo| c.val[v.node as usize];
        if vars.len() <= 12 {
            for a in &vars {
                for b in &vars {
                    if a.name == b.name {
                        continue;
                    }
                    for f in [1.0f32, 0.5, 2.0, 0.8, 1.25] {
                        let mut m = c.witness.clone();
                        m.insert(a.name.clone(), (cur(b) * f).to_bits());
                        cands.push(m);
                    }
                }
            }
        }
        for a in &vars {
            let mut vs = vec![cur(a) * 0.5, cur(a) * 2.0, cur(a) * 1.1, cur(a) * 0.9, cur(a) * 16.0, cur(a) / 16.0];
            if a.lo.is_finite() {
                vs.push(a.lo);
            }
            if a.hi.is_finite() {
                vs.push(a.hi);
            }
            for x in vs {
                let mut m = c.witness.clone();
                m.insert(a.name.clone(), x.to_bits());
                cands.push(m);
            }
        }
        // corners: every non-zero input at the low end, the (geometric) middle or the high end of its regime-restricted
        // domain - all combinations for up to five inputs, a seeded selection of 200 beyond that.  Extreme ratios
        // between inputs (production far above use, an export that outweighs the delivery) are where clamps and
        // sign-dependent code change regime without any change of path.
        {
            let live: Vec<&&dag::VarInfo> = vars.iter().filter(|a| cur(a) != 0.0 && a.lo.is_finite() && a.hi.is_finite() && a.lo < a.hi).collect();
            let levels = |a: &dag::VarInfo| -> [f32; 3] {
                let x = cur(a);
                let (lo, hi) = if x > 0.0 { (a.lo.max(0.0), a.hi.min(1.0e5)) } else { (a.lo.max(-1.0e5), a.hi.min(0.0)) };
                let mid = if lo > 0.0 && hi > 0.0 { (lo * hi).sqrt() } else if lo < 0.0 && hi < 0.0 { -((-lo) * (-hi)).sqrt() } else { 0.5 * (lo + hi) };
                [lo, mid, hi]
            };
            let kk = live.len();
            if kk > 0 {
                let total: u64 = if kk <= 5 { 3u64.pow(kk as u32) } else { 200 };
                let mut st2: u64 = (self.opts.seed ^ 0x2545f4914f6cdd1d).wrapping_mul(0x9e3779b97f4a7c15) | 1;
                for idx in 0..total {
                    let mut code = if kk <= 5 {
                        idx
                    } else {
                        st2 ^= st2 << 13;
                        st2 ^= st2 >> 7;
                        st2 ^= st2 << 17;
                        st2
                    };
                    let mut m = c.witness.clone();
                    for a in &live {
                        let l = levels(a);
                        m.insert(a.name.clone(), l[(code % 3) as usize].to_bits());
                        code /= 3;
                    }
                    cands.push(m);
                }
            }
        }
        // seeded draws: every input log-uniform over (the moderate part of) its regime-restricted domain
        let mut st: u64 = (self.opts.seed ^ 0x9e3779b97f4a7c15).wrapping_mul(0xbf58476d1ce4e5b9) | 1;
        let mut next = move || {
            st ^= st << 13;
            st ^= st >> 7;
            st ^= st << 17;
            (st >> 11) as f64 / (1u64 << 53) as f64
        };
        for _ in 0..64 {
            let mut m = c.witness.clone();
            for a in &vars {
                let x = cur(a);
                if x == 0.0 {
                    continue;
                }
                let (lo, hi) = if x > 0.0 { (a.lo.max(1.0e-2), a.hi.min(1.0e4)) } else { (a.lo.max(-1.0e4), a.hi.min(-1.0e-2)) };
                if !(lo < hi) {
                    continue;
                }
                let u = next();
                let y = if x > 0.0 { ((lo as f64).ln() + u * ((hi as f64).ln() - (lo as f64).ln())).exp() } else { -(((-hi) as f64).ln() + u * (((-lo) as f64).ln() - ((-hi) as f64).ln())).exp() };
                m.insert(a.name.clone(), (y as f32).to_bits());
            }
            cands.push(m);
        }
        for m in cands {
            if out.len() >= 400 {
                break;
            }
            let vals = c.eval_all(&m);
            let g = |x: dag::Arg| match x {
                dag::Arg::K(b) => f32::from_bits(b),
                dag::Arg::N(j) => vals[j as usize],
            };
            let in_dom = c.vars.iter().all(|v| {
                let x = vals[v.node as usize];
                v.dom == Dom::AnyBits || (x >= v.lo && x <= v.hi) || (v.zero_ok && x == 0.0 && x.is_sign_positive())
            });
            if in_dom && c.trace.iter().all(|t| dag::apply_cmp(t.cmp, g(t.a), g(t.b)) == t.side) {
                out.push((m, vals));
            }
        }
        self.variants = Some(out);
    }

    /// A same-path assignment under which the (folded) formula is false.
    fn variant_cex(&mut self, c: &Ctx, f: &Bx) -> Option<BTreeMap<String, String>> {
        if self.variants.is_none() {
            self.make_variants(c);
        }
        let folded = f.fold_identity(c);
        for (m, vals) in self.variants.as_ref().unwrap() {
            if !folded.eval(c, Some(vals)) {
                return Some(hexmap(m));
            }
        }
        None
    }

    /// The decision ladder for one formula on the current path (the context is still alive):
    /// identity, the path's own witness, intervals, order facts (lemma instances), solver.
    fn ladder(&mut self, c: &Ctx, f: &Bx, allow_solver: bool) -> (&'static str, String, Option<BTreeMap<String, String>>, Option<String>) {
        let folded = f.fold_identity(c);
        if folded == Bx::T {
            return ("holds", "identity".into(), None, None);
        }
        if folded == Bx::F || !folded.eval(c, None) {
            return ("violated", "witness".into(), Some(hexmap(&c.witness)), None);
        }
        if folded.iv_eval(c, false) == Some(true) {
            return ("holds", "interval".into(), None, None);
        }
        if folded.iv_eval(c, true) == Some(true) {
            return ("holds", "order-lemmas".into(), None, None);
        }
        if !allow_solver {
            return ("pending", "pending".into(), None, None);
        }
        // L4: bit-precise query  domains ∧ cone(PC[0..b)) ∧ ¬ob, where b is the number of decisions
        // taken before the newest code-built node of the obligation existed.  Dropping later
        // decisions only weakens the hypothesis; a model that violates them is retried with the full PC.
        let goal = folded.clone().not();
        let b = folded.bound(c).min(c.trace.len());
        self.last_prefix = b;
        let mut q = build_query(c, &c.trace[..b], &goal);
        let (mut v, _dt, mut cached) = self.solver.check(&q);
        if let (Verdict::Sat(model), true) = (&v, b < c.trace.len()) {
            let mut w = c.witness.clone();
            for (i, bits) in model.iter().enumerate() {
                w.insert(q.vars[i].clone(), *bits);
            }
            let vals = c.eval_all(&w);
            let g = |x: dag::Arg| match x {
                dag::Arg::K(b) => f32::from_bits(b),
                dag::Arg::N(i) => vals[i as usize],
            };
            if !c.trace.iter().all(|d| dag::apply_cmp(d.cmp, g(d.a), g(d.b)) == d.side) {
                self.last_prefix = c.trace.len();
                q = build_query(c, &c.trace, &goal);
                let r = self.solver.check(&q);
                v = r.0;
                cached = r.2;
            }
        }
        match v {
            Verdict::Unsat => ("holds", if cached { "solver(cached)".into() } else { "solver".into() }, None, None),
            Verdict::Sat(model) => {
                // merge the model into the path witness and re-check natively on the DAG
                let mut w = c.witness.clone();
                for (i, bits) in model.iter().enumerate() {
                    w.insert(q.vars[i].clone(), *bits);
                }
                let vals = c.eval_all(&w);
                let g = |x: dag::Arg| match x {
                    dag::Arg::K(b) => f32::from_bits(b),
                    dag::Arg::N(i) => vals[i as usize],
                };
                let pc_ok = c.trace.iter().all(|d| dag::apply_cmp(d.cmp, g(d.a), g(d.b)) == d.side);
                let ob_false = !folded.eval(c, Some(&vals));
                if pc_ok && ob_false {
                    ("violated", "solver-cex".into(), Some(hexmap(&w)), None)
                } else {
                    (
                        "undecided",
                        "model-mismatch".into(),
                        Some(hexmap(&w)),
                        Some(format!("solver model does not reproduce on the DAG (pc_ok={}, ob_false={})", pc_ok, ob_false)),
                    )
                }
            }
            Verdict::Unknown(why) => {
                // no back end decided it at full width: the same query over the reduced-width format.  A narrow
                // model is only a candidate (kept if it reproduces in binary32 on the DAG); a narrow `unsat` is
                // reported as what it is, a verdict about the narrow arithmetic
                let nv = if self.narrow_now { self.solver.check_narrow(&q) } else { Verdict::Unknown(String::new()) };
                match nv {
                    Verdict::Sat(model) if model.len() == q.vars.len() => {
                        let mut w = c.witness.clone();
                        for (i, bits) in model.iter().enumerate() {
                            w.insert(q.vars[i].clone(), *bits);
                        }
                        let vals = c.eval_all(&w);
                        let g = |x: dag::Arg| match x {
                            dag::Arg::K(b) => f32::from_bits(b),
                            dag::Arg::N(i) => vals[i as usize],
                        };
                        let pc_ok = c.trace.iter().all(|d| dag::apply_cmp(d.cmp, g(d.a), g(d.b)) == d.side);
                        if pc_ok && !folded.eval(c, Some(&vals)) {
                            ("violated", "solver-cex(reduced-width candidate, reproduced in binary32)".into(), Some(hexmap(&w)), None)
                        } else {
                            ("undecided", "reduced-width:sat-not-reproduced".into(), None, Some(format!("{}; at reduced width a model exists that is not a binary32 counterexample", why)))
                        }
                    }
                    Verdict::Unsat => ("undecided", "reduced-width:unsat".into(), None, Some(format!("{}; holds over the reduced-width format (8 exponent, {} significand bits)", why, self.solver.narrow_sb))),
                    _ => ("undecided", "solver-unknown".into(), None, Some(why)),
                }
            }
        }
    }

    /// Decide one obligation: through its lemma premises if it has any, else directly.  With `cheap` the solver
    /// is not consulted (verdict "pending"): paths are enumerated first, solver time is spent afterwards.
    fn decide_ob(&mut self, c: &Ctx, ob: &dag::Ob, cheap: bool) -> ObReport {
        let t0 = Instant::now();
        if let Some((lemma, prem)) = &ob.via {
            self.last_prefix = prem.bound(c).min(c.trace.len());
            // premises that state "the same term" are structural: they close by identity or not at all;
            // only quantitative premises (bounds) are worth a query
            let structural = matches!(lemma.as_str(), "same-term" | "pow2-scaling" | "affine-structure" | "shares-structure" | "recip");
            let (v, how, _, _) = self.ladder(c, prem, !cheap && !structural);
            if v == "holds" {
                return ObReport { name: ob.name.clone(), verdict: "holds".into(), how: format!("lemma:{}+{}", lemma, how), time_s: t0.elapsed().as_secs_f64(), cex: None, detail: None, prefix: self.last_prefix };
            }
            if v == "pending" && !structural {
                if let Some(cex) = self.variant_cex(c, &ob.direct) {
                    return ObReport { name: ob.name.clone(), verdict: "violated".into(), how: "witness-variant".into(), time_s: t0.elapsed().as_secs_f64(), cex: Some(cex), detail: Some(ob.direct.fold_identity(c).show(c, 6).chars().take(700).collect()), prefix: c.trace.len() };
                }
                return ObReport { name: ob.name.clone(), verdict: "pending".into(), how: "pending".into(), time_s: 0.0, cex: None, detail: None, prefix: ob.direct.bound(c).max(prem.bound(c)).min(c.trace.len()) };
            }
        }
        self.last_prefix = ob.direct.bound(c).min(c.trace.len());
        let (mut v, mut how, mut cex, mut detail) = self.ladder(c, &ob.direct, !cheap);
        if v == "pending" && cheap {
            if let Some(x) = self.variant_cex(c, &ob.direct) {
                v = "violated";
                how = "witness-variant".into();
                cex = Some(x);
                self.last_prefix = c.trace.len();
            }
        }
        if v != "holds" && v != "pending" {
            // the formula itself (depth-limited) is the explanation of what differs
            let f = ob.direct.fold_identity(c).show(c, 6);
            detail = Some(format!("{}{}", detail.map(|d| d + " | ").unwrap_or_default(), f.chars().take(700).collect::<String>()));
        }
        ObReport { name: ob.name.clone(), verdict: v.into(), how, time_s: t0.elapsed().as_secs_f64(), cex, detail, prefix: self.last_prefix }
    }

    /// Explore every feasible path of `scenario`; the scenario records outputs and obligations
    /// through the thread-local context and returns an outcome label.
    pub fn run_unit(&mut self, unit: &str, scenario: &dyn Fn() -> String) -> UnitReport {
        let t0 = Instant::now();
        let mut stats = UnitStats::default();
        let mut paths: Vec<PathReport> = vec![];
        let mut work: Vec<(StdMap<String, u32>, usize)> = vec![(StdMap::new(), 0)];
        let mut pool: Vec<StdMap<String, u32>> = vec![];
        let mut later: Vec<(usize, Ctx, Vec<usize>)> = vec![];
        let q0 = self.solver.stats.clone();
        // pending prefixes are taken shallowest first (the flip of the earliest decision; ties: the newest): under a
        // truncating budget this reaches the other side of every early branch before the deep combinations
        while let Some((witness, bound)) = {
            let best = work.iter().enumerate().min_by_key(|(i, w)| (w.1, usize::MAX - *i)).map(|(i, _)| i);
            best.map(|i| work.remove(i))
        } {
            if paths.len() >= self.opts.max_paths || t0.elapsed().as_secs_f64() > self.opts.budget_s {
                stats.truncated = true;
                stats.unexplored.push(format!("{} pending path prefixes dropped (path or time budget)", work.len() + 1));
                break;
            }
            dag::reset(witness, self.opts.seed, self.opts.simplify);
            PANIC_INFO.with(|p| *p.borrow_mut() = None);
            let res = catch_unwind(AssertUnwindSafe(|| scenario()));
            let outcome = match res {
                Ok(s) => s,
                Err(_) => {
                    stats.panics += 1;
                    let info = PANIC_INFO.with(|p| p.borrow_mut().take()).unwrap_or_default();
                    format!("panic:{}", info)
                }
            };
            if outcome.contains("VERIF_RT_UNSUPPORTED") {
                stats.internal_errors.push(outcome.clone());
            }
            // take the context out of the thread-local so that we can use it while calling the solver
            let ctx = dag::CTX.with(|c| std::mem::replace(&mut **c.borrow_mut(), Ctx::new()));
            if let Some(e) = &ctx.internal_error {
                stats.internal_errors.push(e.clone());
            }
            let idx = paths.len();
            let mut obs = vec![];
            let mut pending: Vec<usize> = vec![];
            self.variants = None;
            self.pool_snapshot = pool.iter().rev().take(24).cloned().collect();
            for (oi, ob) in ctx.obs.iter().enumerate() {
                let r = self.decide_ob(&ctx, ob, true);
                if r.verdict == "pending" {
                    pending.push(oi);
                }
                obs.push(r);
            }
            let outs = ctx
                .outs
                .iter()
                .map(|(n, v)| {
                    let bits = match v {
                        crate::Sf::C(x) => x.to_bits(),
                        crate::Sf::S(i) => ctx.val[*i as usize].to_bits(),
                    };
                    (n.clone(), format!("{:08x}", bits))
                })
                .collect();
            // flip the new decisions.  Decisions taken after the newest program point any obligation of
            // this path refers to ("late" decisions) cannot matter for these obligations (each was decided
            // under PC[0..prefix)); for value properties their other side is explored only if the solver
            // finds a witness within a short cap, and is otherwise listed as a stated bound
            // (`unexplored_benign`).  Outcome properties (strict) and paths without obligations flip everything.
            let relevant = if self.opts.strict_unexplored || ctx.obs.is_empty() {
                ctx.trace.len()
            } else {
                ctx.obs
                    .iter()
                    .map(|o| o.direct.bound(&ctx).max(o.via.as_ref().map(|v| v.1.bound(&ctx)).unwrap_or(0)))
                    .max()
                    .unwrap_or(0)
                    .min(ctx.trace.len())
            };
            pool.push(ctx.witness.clone());
            // first-stage flip queries that are not answered by the cache or by the witness pool are
            // solved concurrently (independent solver processes)
            let mut pool_hit: StdMap<usize, StdMap<String, u32>> = StdMap::new();
            {
                let mut todo: Vec<(crate::smt::Query, u64)> = vec![];
                for i in bound..ctx.trace.len() {
                    let d = &ctx.trace[i];
                    if d.kind != Kind::Branch {
                        continue;
                    }
                    if let Some(w) = self.pool_flip(&ctx, i, &pool) {
                        pool_hit.insert(i, w);
                        continue;
                    }
                    let late = i >= relevant;
                    let atom = Bx::Cmp(d.cmp, d.a, d.b);
                    let goal = if d.side { atom.not() } else { atom };
                    let b = goal.bound(&ctx).min(i);
                    todo.push((build_query(&ctx, &ctx.trace[..b], &goal), if late { self.opts.late_timeout_s } else { self.opts.flip_timeout_s }));
                }
                self.solver.prefetch(todo, self.opts.threads);
            }
            for i in bound..ctx.trace.len() {
                let late = i >= relevant;
                self.solver.timeout_s = if late { self.opts.late_timeout_s } else { self.opts.flip_timeout_s };
                if let Some(w) = pool_hit.remove(&i) {
                    stats.flips_pool += 1;
                    work.push((w, i + 1));
                    continue;
                }

                let d = &ctx.trace[i];
                match d.kind {
                    Kind::Regime => {
                        if let Some((name, bits)) = regime_flip(&ctx, d, self.opts.seed) {
                            let mut w = ctx.witness.clone();
                            w.insert(name, bits);
                            stats.flips_regime += 1;
                            work.push((w, i + 1));
                        }
                    }
                    Kind::Branch => {
                        let atom = Bx::Cmp(d.cmp, d.a, d.b);
                        let goal = if d.side { atom.not() } else { atom };
                        let b = goal.bound(&ctx).min(i);
                        let mut q = build_query(&ctx, &ctx.trace[..b], &goal);
                        let (mut v, _dt, _cached) = self.solver.check(&q);
                        if let (Verdict::Sat(model), true) = (&v, b < i) {
                            let mut w = ctx.witness.clone();
                            for (k, bits) in model.iter().enumerate() {
                                w.insert(q.vars[k].clone(), *bits);
                            }
                            let vals = ctx.eval_all(&w);
                            let g = |x: dag::Arg| match x {
                                dag::Arg::K(b) => f32::from_bits(b),
                                dag::Arg::N(j) => vals[j as usize],
                            };
                            if !ctx.trace[..i].iter().all(|d| dag::apply_cmp(d.cmp, g(d.a), g(d.b)) == d.side) {
                                q = build_query(&ctx, &ctx.trace[..i], &goal);
                                v = self.solver.check(&q).0;
                            }
                        }
                        match v {
                            Verdict::Unsat => stats.flips_unsat += 1,
                            Verdict::Sat(model) => {
                                let mut w = ctx.witness.clone();
                                for (k, bits) in model.iter().enumerate() {
                                    w.insert(q.vars[k].clone(), *bits);
                                }
                                stats.flips_sat += 1;
                                work.push((w, i + 1));
                            }
                            Verdict::Unknown(mut why) => {
                                if !late && self.opts.narrow_flips {
                                    // reduced-width candidate for the other side of the branch
                                    match self.solver.check_narrow(&q) {
                                        Verdict::Sat(model) if model.len() == q.vars.len() => {
                                            let mut w = ctx.witness.clone();
                                            for (k, bits) in model.iter().enumerate() {
                                                w.insert(q.vars[k].clone(), *bits);
                                            }
                                            let vals = ctx.eval_all(&w);
                                            let g = |x: dag::Arg| match x {
                                                dag::Arg::K(b) => f32::from_bits(b),
                                                dag::Arg::N(j) => vals[j as usize],
                                            };
                                            let in_dom = ctx.vars.iter().all(|v| {
                                                let x = vals[v.node as usize];
                                                v.dom == Dom::AnyBits || (x >= v.lo && x <= v.hi) || (v.zero_ok && x == 0.0 && x.is_sign_positive())
                                            });
                                            if in_dom && ctx.trace[..i].iter().all(|t| dag::apply_cmp(t.cmp, g(t.a), g(t.b)) == t.side) && dag::apply_cmp(d.cmp, g(d.a), g(d.b)) != d.side {
                                                stats.flips_sat += 1;
                                                stats.flips_narrow += 1;
                                                work.push((w, i + 1));
                                                continue;
                                            }
                                            why = format!("{}; reduced-width model does not reproduce in binary32", why);
                                        }
                                        Verdict::Unsat => why = format!("{}; infeasible over the reduced-width format", why),
                                        _ => {}
                                    }
                                }
                                if late {
                                    stats.flips_late_unknown += 1;
                                    if stats.unexplored_benign.len() < 50 {
                                        stats.unexplored_benign.push(format!("path {} decision {} {}: {}", idx, i, fmt_atom(&ctx, d), why));
                                    }
                                    continue;
                                }
                                stats.flips_unknown += 1;
                                // obligations whose verdict rests on decisions up to i only are covered on
                                // the unexplored side as well (they were proved under PC[0..prefix), prefix <= i)
                                let affected = obs.iter().filter(|o: &&ObReport| o.prefix > i).count();
                                let msg = format!("path {} decision {} {}: {} ({} obligations depend on it)", idx, i, fmt_atom(&ctx, d), why, affected);
                                if affected > 0 || self.opts.strict_unexplored {
                                    stats.unexplored.push(msg);
                                } else {
                                    stats.unexplored_benign.push(msg);
                                }
                            }
                        }
                    }
                }
            }
            if self.opts.verbose {
                eprintln!(
                    "  path {} outcome={} decisions={} nodes={} work={} queries={} (hits {}) solver={:.1}s unknown={}",
                    idx, outcome, ctx.trace.len(), ctx.nodes.len(), work.len(), self.solver.stats.queries, self.solver.stats.cache_hits, self.solver.stats.time_s, self.solver.stats.unknown
                );
            }
            self.solver.timeout_s = self.opts.timeout_s;
            stats.decisions += ctx.trace.len();
            stats.decided_by_interval += ctx.stats.decided_interval;
            stats.decided_by_cache += ctx.stats.decided_cache;
            stats.simplified_nodes += ctx.stats.simplified;
            stats.scale_rewrites += ctx.scale_rewrites;
            for (l, n) in ctx.lemma_uses.iter().chain(ctx.lemma_uses_q.borrow().iter()) {
                *stats.lemmas_used.entry(l.to_string()).or_insert(0) += n;
            }
            let pc = if self.opts.verbose || obs.iter().any(|o: &ObReport| o.verdict != "holds") {
                ctx.trace.iter().map(|d| fmt_atom(&ctx, d)).collect()
            } else {
                vec![]
            };
            let keep = !pending.is_empty();
            paths.push(PathReport {
                idx,
                decisions: ctx.trace.len(),
                branch_decisions: ctx.trace.iter().filter(|d| d.kind == Kind::Branch).count(),
                nodes: ctx.nodes.len(),
                outcome,
                witness: hexmap(&ctx.witness),
                outs,
                obs,
                pc,
            });
            if keep {
                later.push((idx, ctx, pending));
            }
        }
        // phase 2: solver time for the obligations that the cheap rungs left open, within the unit's budget
        self.solver.timeout_s = self.opts.timeout_s;
        for (idx, ctx, pending) in &later {
            for &oi in pending {
                if t0.elapsed().as_secs_f64() > self.opts.budget_s {
                    stats.truncated = true;
                    let r = &mut paths[*idx].obs[oi];
                    r.verdict = "undecided".into();
                    r.how = "budget".into();
                    r.detail = Some("unit budget exhausted before this obligation reached the solver".into());
                    continue;
                }
                let r = self.decide_ob(ctx, &ctx.obs[oi], false);
                paths[*idx].obs[oi] = r;
            }
            if paths[*idx].pc.is_empty() && paths[*idx].obs.iter().any(|o| o.verdict != "holds") {
                paths[*idx].pc = ctx.trace.iter().map(|d| fmt_atom(ctx, d)).collect();
            }
        }
        // phase 3: what every full-width back end gave up on is asked once more over the reduced-width format,
        // within an extra quarter of the unit's budget (the full-width query is answered by the gave-up cache)
        if self.solver.narrow_timeout_s > 0 {
            self.narrow_now = true;
            let t3 = Instant::now();
            'outer: for (idx, ctx, pending) in &later {
                for &oi in pending {
                    if t3.elapsed().as_secs_f64() > 0.25 * self.opts.budget_s {
                        break 'outer;
                    }
                    if paths[*idx].obs[oi].verdict == "undecided" && paths[*idx].obs[oi].how == "solver-unknown" {
                        let r = self.decide_ob(ctx, &ctx.obs[oi], false);
                        paths[*idx].obs[oi] = r;
                    }
                }
            }
            self.narrow_now = false;
        }
        for p in &paths {
            for r in &p.obs {
                stats.ob_total += 1;
                if let Some(l) = r.how.strip_prefix("lemma:") {
                    *stats.lemmas_used.entry(l.split('+').next().unwrap().to_string()).or_insert(0) += 1;
                }
                match (r.verdict.as_str(), r.how.as_str()) {
                    ("holds", "identity") => stats.ob_identity += 1,
                    ("holds", "interval") => stats.ob_interval += 1,
                    ("holds", "order-lemmas") => stats.ob_lemma += 1,
                    ("holds", h) if h.starts_with("lemma:") && !h.contains("solver") => stats.ob_lemma += 1,
                    ("holds", _) => stats.ob_solver += 1,
                    ("violated", _) => stats.ob_violated += 1,
                    (_, "reduced-width:unsat") => {
                        stats.ob_undecided += 1;
                        stats.ob_reduced_width += 1;
                    }
                    _ => stats.ob_undecided += 1,
                }
            }
        }
        let q1 = &self.solver.stats;
        stats.paths = paths.len();
        stats.solver_queries = q1.queries - q0.queries;
        stats.solver_cache_hits = q1.cache_hits - q0.cache_hits;
        stats.solver_unsat = q1.unsat - q0.unsat;
        stats.solver_sat = q1.sat - q0.sat;
        stats.solver_unknown = q1.unknown - q0.unknown;
        stats.solver_time_s = q1.time_s - q0.time_s;
        stats.solver_max_time_s = q1.max_time_s;
        stats.cross_checked = q1.cross_checked - q0.cross_checked;
        stats.cross_disagree = q1.cross_disagree - q0.cross_disagree;
        stats.cbmc_decided = q1.cbmc_decided - q0.cbmc_decided;
        stats.narrow_queries = q1.narrow_queries - q0.narrow_queries;
        stats.narrow_unsat = q1.narrow_unsat - q0.narrow_unsat;
        stats.narrow_sat = q1.narrow_sat - q0.narrow_sat;
        stats.narrow_time_s = q1.narrow_time_s - q0.narrow_time_s;
        stats.narrow_cross_checked = q1.narrow_cross_checked - q0.narrow_cross_checked;
        stats.narrow_cross_disagree = q1.narrow_cross_disagree - q0.narrow_cross_disagree;
        stats.wall_s = t0.elapsed().as_secs_f64();
        UnitReport { unit: unit.to_string(), stats, paths }
    }
}
