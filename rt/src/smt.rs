//! SMT-LIB2 (QF_FP, bit-precise binary32) rendering of path conditions and obligations,
//! cone-of-influence slicing, canonical naming (so alpha-equivalent queries are solved once),
//! solver processes (cvc5 primary; z3 as cross-check; CBMC on a C rendering as second back end).

use crate::bx::Bx;
use crate::dag::{vs_and_any, vs_iter, vs_or, Arg, Cmp, Ctx, Decision, Dom, Kind, Op, VarSet};
use std::collections::HashMap as StdMap;
use std::fmt::Write as _;
use std::io::Write as _;
use std::process::{Command, Stdio};
use std::time::Instant;

#[derive(Clone, Debug)]
pub enum Verdict {
    Unsat,
    /// model: canonical variable index -> f32 bits
    Sat(Vec<u32>),
    Unknown(String),
}

pub struct Query {
    pub text: String,
    /// the same query as a straight-line C program for CBMC (second back end, used when cvc5 gives up)
    pub ctext: String,
    /// canonical index -> input name
    pub vars: Vec<String>,
    pub nodes: usize,
    pub unsupported: Option<String>,
}

fn clit(b: u32) -> String {
    format!("F(0x{:08x}u)", b)
}

fn lit(b: u32) -> String {
    format!("((_ to_fp 8 24) #x{:08x})", b)
}

struct Canon<'a> {
    c: &'a Ctx,
    name: StdMap<u32, String>,
    vars: Vec<String>,
    decls: String,
    defs: String,
    cdecls: String,
    cdefs: String,
    nodes: usize,
    unsupported: Option<String>,
}

impl<'a> Canon<'a> {
    fn term(&mut self, x: Arg) -> String {
        match x {
            Arg::K(b) => lit(b),
            Arg::N(i) => {
                if let Some(n) = self.name.get(&i) {
                    return n.clone();
                }
                // iterative post-order to avoid deep recursion on long sums
                let mut stack = vec![(i, false)];
                while let Some((j, done)) = stack.pop() {
                    if self.name.contains_key(&j) {
                        continue;
                    }
                    let n = self.c.nodes[j as usize];
                    if n.op == Op::Var {
                        self.def_var(j);
                        continue;
                    }
                    if !done {
                        stack.push((j, true));
                        // push b first so that a is visited first
                        if let Arg::N(k) = n.b {
                            if !self.name.contains_key(&k) {
                                stack.push((k, false));
                            }
                        }
                        if let Arg::N(k) = n.a {
                            if !self.name.contains_key(&k) {
                                stack.push((k, false));
                            }
                        }
                    } else {
                        self.def_node(j);
                    }
                }
                self.name[&i].clone()
            }
        }
    }
    fn def_var(&mut self, j: u32) {
        let vi = self.c.vars.iter().find(|v| v.node == j).expect("var info");
        let k = self.vars.len();
        let nm = format!("v{}", k);
        self.vars.push(vi.name.clone());
        writeln!(self.decls, "(declare-const {} (_ FloatingPoint 8 24))", nm).unwrap();
        writeln!(self.cdecls, "  float {} = nondet_float();", nm).unwrap();
        if vi.dom != Dom::AnyBits {
            let range = format!("({} <= {nm} && {nm} <= {})", clit(vi.lo.to_bits()), clit(vi.hi.to_bits()), nm = nm);
            if vi.zero_ok {
                writeln!(self.cdecls, "  __CPROVER_assume(BITS({}) == 0u || {});", nm, range).unwrap();
            } else {
                writeln!(self.cdecls, "  __CPROVER_assume({});", range).unwrap();
            }
        }
        if vi.dom != Dom::AnyBits {
            let range = format!("(and (fp.leq {} {}) (fp.leq {} {}))", lit(vi.lo.to_bits()), nm, nm, lit(vi.hi.to_bits()));
            if vi.zero_ok {
                writeln!(self.decls, "(assert (or (= {} (_ +zero 8 24)) {}))", nm, range).unwrap();
            } else {
                writeln!(self.decls, "(assert {})", range).unwrap();
            }
        }
        self.name.insert(j, nm);
    }
    fn def_node(&mut self, j: u32) {
        let n = self.c.nodes[j as usize];
        let a = self.term(n.a);
        let nm = format!("n{}", self.nodes);
        self.nodes += 1;
        let body = match n.op {
            Op::Add => format!("(fp.add RNE {} {})", a, self.term(n.b)),
            Op::Sub => format!("(fp.sub RNE {} {})", a, self.term(n.b)),
            Op::Mul => format!("(fp.mul RNE {} {})", a, self.term(n.b)),
            Op::Div => format!("(fp.div RNE {} {})", a, self.term(n.b)),
            Op::Min => format!("(fp.min {} {})", a, self.term(n.b)),
            Op::Max => format!("(fp.max {} {})", a, self.term(n.b)),
            Op::Abs => format!("(fp.abs {})", a),
            Op::Neg => format!("(fp.neg {})", a),
            Op::Round => format!("(fp.roundToIntegral RNA {})", a),
            Op::Rem => {
                self.unsupported = Some("f32 % (fmod) has no SMT-LIB counterpart".into());
                format!("(fp.rem {} {})", a, self.term(n.b))
            }
            Op::Var => unreachable!(),
        };
        writeln!(self.defs, "(define-fun {} () (_ FloatingPoint 8 24) {})", nm, body).unwrap();
        let (ca, cb) = (self.cterm(n.a), self.cterm(n.b));
        let cbody = match n.op {
            Op::Add => format!("{} + {}", ca, cb),
            Op::Sub => format!("{} - {}", ca, cb),
            Op::Mul => format!("{} * {}", ca, cb),
            Op::Div => format!("{} / {}", ca, cb),
            Op::Min => format!("fminf({}, {})", ca, cb),
            Op::Max => format!("fmaxf({}, {})", ca, cb),
            Op::Abs => format!("fabsf({})", ca),
            Op::Neg => format!("-{}", ca),
            Op::Round => format!("roundf({})", ca),
            Op::Rem => format!("fmodf({}, {})", ca, cb),
            Op::Var => unreachable!(),
        };
        writeln!(self.cdefs, "  float {} = {};", nm, cbody).unwrap();
        self.name.insert(j, nm);
    }
    /// C term of an already named operand
    fn cterm(&self, x: Arg) -> String {
        match x {
            Arg::K(b) => clit(b),
            Arg::N(i) => self.name.get(&i).cloned().unwrap_or_else(|| "0.0f".into()),
        }
    }
    fn catom(&self, cmp: Cmp, a: Arg, b: Arg) -> String {
        let o = match cmp {
            Cmp::Lt => "<",
            Cmp::Le => "<=",
            Cmp::Eq => "==",
        };
        format!("({} {} {})", self.cterm(a), o, self.cterm(b))
    }
    fn cbx(&self, b: &Bx) -> String {
        match b {
            Bx::T => "1".into(),
            Bx::F => "0".into(),
            Bx::Cmp(cmp, x, y) => self.catom(*cmp, *x, *y),
            Bx::IsNan(x) => format!("isnan({})", self.cterm(*x)),
            Bx::Not(x) => format!("!{}", self.cbx(x)),
            Bx::And(v) => format!("({})", v.iter().map(|x| self.cbx(x)).collect::<Vec<_>>().join(" && ")),
            Bx::Or(v) => format!("({})", v.iter().map(|x| self.cbx(x)).collect::<Vec<_>>().join(" || ")),
        }
    }
    fn atom(&mut self, cmp: Cmp, a: Arg, b: Arg) -> String {
        let o = match cmp {
            Cmp::Lt => "fp.lt",
            Cmp::Le => "fp.leq",
            Cmp::Eq => "fp.eq",
        };
        let ta = self.term(a);
        let tb = self.term(b);
        format!("({} {} {})", o, ta, tb)
    }
    fn bx(&mut self, b: &Bx) -> String {
        match b {
            Bx::T => "true".into(),
            Bx::F => "false".into(),
            Bx::Cmp(cmp, x, y) => self.atom(*cmp, *x, *y),
            Bx::IsNan(x) => format!("(fp.isNaN {})", self.term(*x)),
            Bx::Not(x) => format!("(not {})", self.bx(x)),
            Bx::And(v) => {
                let parts: Vec<String> = v.iter().map(|x| self.bx(x)).collect();
                format!("(and {})", parts.join(" "))
            }
            Bx::Or(v) => {
                let parts: Vec<String> = v.iter().map(|x| self.bx(x)).collect();
                format!("(or {})", parts.join(" "))
            }
        }
    }
}

/// The branch decisions of `pc` that share (transitively) an input with `seed`.
pub fn cone<'a>(pc: &'a [Decision], seed: VarSet) -> (Vec<&'a Decision>, VarSet) {
    let mut set = seed;
    let mut taken = vec![false; pc.len()];
    loop {
        let mut grew = false;
        for (i, d) in pc.iter().enumerate() {
            if !taken[i] && d.kind == Kind::Branch && vs_and_any(&d.vars, &set) {
                taken[i] = true;
                set = vs_or(&set, &d.vars);
                grew = true;
            }
        }
        if !grew {
            break;
        }
    }
    (pc.iter().enumerate().filter(|(i, _)| taken[*i]).map(|(_, d)| d).collect(), set)
}

/// Build `domains ∧ cone(pc) ∧ goal` with canonical names.
pub fn build_query(c: &Ctx, pc: &[Decision], goal: &Bx) -> Query {
    let seed = goal.vars(c);
    let (atoms, _set) = cone(pc, seed);
    let mut k = Canon { c, name: StdMap::new(), vars: vec![], decls: String::new(), defs: String::new(), cdecls: String::new(), cdefs: String::new(), nodes: 0, unsupported: None };
    let mut cassume = String::new();
    let mut asserts = String::new();
    for d in &atoms {
        let t = k.atom(d.cmp, d.a, d.b);
        if d.side {
            writeln!(asserts, "(assert {})", t).unwrap();
        } else {
            writeln!(asserts, "(assert (not {}))", t).unwrap();
        }
        writeln!(cassume, "  __CPROVER_assume({}{});", if d.side { "" } else { "!" }, k.catom(d.cmp, d.a, d.b)).unwrap();
    }
    let g = k.bx(goal);
    writeln!(asserts, "(assert {})", g).unwrap();
    // C rendering: the goal is satisfiable iff the assertion `!goal` can fail
    let ctext = format!(
        "#include <math.h>\nfloat nondet_float();\nstatic inline float F(unsigned u) {{ union {{ unsigned u; float f; }} x; x.u = u; return x.f; }}\nstatic inline unsigned BITS(float f) {{ union {{ unsigned u; float f; }} x; x.f = f; return x.u; }}\nint main() {{\n{}{}{}  __CPROVER_assert(!{}, \"goal\");\n  return 0;\n}}\n",
        k.cdecls,
        k.cdefs,
        cassume,
        k.cbx(goal)
    );
    let mut text = String::from("(set-logic QF_FP)\n");
    text.push_str(&k.decls);
    text.push_str(&k.defs);
    text.push_str(&asserts);
    text.push_str("(check-sat)\n");
    if !k.vars.is_empty() {
        let names: Vec<String> = (0..k.vars.len()).map(|i| format!("v{}", i)).collect();
        writeln!(text, "(get-value ({}))", names.join(" ")).unwrap();
    }
    Query { text, ctext, vars: k.vars, nodes: k.nodes, unsupported: k.unsupported }
}

// ------------------------------------------------------------------ model parsing

fn parse_fp_value(s: &str) -> Option<u32> {
    // forms: (fp #b0 #b10000010 #b0100...)  (fp #b0 #x82 #b...)  (_ +zero 8 24) (_ -zero 8 24)
    //        (_ +oo 8 24) (_ -oo 8 24) (_ NaN 8 24)
    let s = s.trim();
    if s.starts_with("(_") {
        let t: Vec<&str> = s.trim_matches(|c| c == '(' || c == ')').split_whitespace().collect();
        return match t.get(1).copied() {
            Some("+zero") => Some(0),
            Some("-zero") => Some(0x8000_0000),
            Some("+oo") => Some(0x7f80_0000),
            Some("-oo") => Some(0xff80_0000),
            Some("NaN") => Some(0x7fc0_0000),
            _ => None,
        };
    }
    if s.starts_with("(fp") {
        let t: Vec<&str> = s.trim_matches(|c| c == '(' || c == ')').split_whitespace().collect();
        if t.len() != 4 {
            return None;
        }
        let bits = |x: &str| -> Option<(u32, u32)> {
            if let Some(b) = x.strip_prefix("#b") {
                Some((u32::from_str_radix(b, 2).ok()?, b.len() as u32))
            } else if let Some(h) = x.strip_prefix("#x") {
                Some((u32::from_str_radix(h, 16).ok()?, 4 * h.len() as u32))
            } else {
                None
            }
        };
        let (sg, sl) = bits(t[1])?;
        let (ex, el) = bits(t[2])?;
        let (mn, ml) = bits(t[3])?;
        // reduced-width models (8 exponent bits, fewer significand bits) are binary32 values with a zero tail
        if sl != 1 || el != 8 || ml == 0 || ml > 23 {
            return None;
        }
        return Some(sg << 31 | ex << 23 | mn << (23 - ml));
    }
    None
}

/// Parse `((v0 (fp ...)) (v1 (_ +zero 8 24)) ...)`.
fn parse_model(out: &str, n: usize) -> Option<Vec<u32>> {
    let mut res = vec![None; n];
    let bytes = out.as_bytes();
    let mut i = 0;
    while let Some(p) = out[i..].find("(v") {
        let start = i + p + 1;
        // name
        let mut j = start;
        while j < bytes.len() && !bytes[j].is_ascii_whitespace() {
            j += 1;
        }
        let name = &out[start..j];
        let idx: usize = match name[1..].parse() {
            Ok(x) => x,
            Err(_) => {
                i = j;
                continue;
            }
        };
        // value: next balanced s-expression
        while j < bytes.len() && bytes[j].is_ascii_whitespace() {
            j += 1;
        }
        if j >= bytes.len() || bytes[j] != b'(' {
            i = j;
            continue;
        }
        let mut depth = 0;
        let vs = j;
        while j < bytes.len() {
            if bytes[j] == b'(' {
                depth += 1;
            }
            if bytes[j] == b')' {
                depth -= 1;
                if depth == 0 {
                    j += 1;
                    break;
                }
            }
            j += 1;
        }
        if idx < n {
            res[idx] = parse_fp_value(&out[vs..j]);
        }
        i = j;
    }
    res.into_iter().collect()
}

// ------------------------------------------------------------------ solver processes

#[derive(Clone, Debug, Default)]
pub struct SolverStats {
    pub queries: u64,
    pub cache_hits: u64,
    pub unsat: u64,
    pub sat: u64,
    pub unknown: u64,
    pub time_s: f64,
    pub max_time_s: f64,
    pub cross_checked: u64,
    pub cross_disagree: u64,
    pub cbmc_decided: u64,
    /// reduced-width queries (asked only after every full-width back end gave up)
    pub narrow_queries: u64,
    pub narrow_unsat: u64,
    pub narrow_sat: u64,
    pub narrow_unknown: u64,
    pub narrow_time_s: f64,
    pub narrow_cross_checked: u64,
    pub narrow_cross_disagree: u64,
}

pub struct Solver {
    pub timeout_s: u64,
    pub cache_dir: Option<String>,
    pub mem: StdMap<u64, (String, Verdict)>,
    /// queries that timed out, with the cap they were given (not retried with the same or a smaller cap)
    pub gave_up: StdMap<u64, u64>,
    pub stats: SolverStats,
    /// every k-th decided query is repeated on z3 (0: never)
    pub cross_every: u64,
    pub dump_dir: Option<String>,
    pub cbmc_fallback: bool,
    /// significand bits of the reduced-width fall-back (0: off) and its cap
    pub narrow_sb: u32,
    pub narrow_timeout_s: u64,
}

fn h64(s: &str) -> u64 {
    let mut h: u64 = 0xcbf29ce484222325;
    for b in s.bytes() {
        h ^= b as u64;
        h = h.wrapping_mul(0x100000001b3);
    }
    h
}

fn run_process(cmd: &str, args: &[&str], input: &str, timeout_s: u64) -> Result<String, String> {
    // memory cap 6 GB per solver, hard wall-clock cap via timeout(1)
    let shell = format!(
        "ulimit -v 6000000; exec timeout -k 2 {} {} {}",
        timeout_s + 2,
        cmd,
        args.iter().map(|a| format!("'{}'", a)).collect::<Vec<_>>().join(" ")
    );
    let mut child = Command::new("sh")
        .arg("-c")
        .arg(&shell)
        .stdin(Stdio::piped())
        .stdout(Stdio::piped())
        .stderr(Stdio::piped())
        .spawn()
        .map_err(|e| format!("spawn {}: {}", cmd, e))?;
    {
        let mut si = child.stdin.take().unwrap();
        let _ = si.write_all(input.as_bytes());
    }
    let out = child.wait_with_output().map_err(|e| format!("wait: {}", e))?;
    let so = String::from_utf8_lossy(&out.stdout).to_string();
    let se = String::from_utf8_lossy(&out.stderr).to_string();
    // An `(error` line before the verdict (a dropped assertion, a parse problem) makes the run
    // inconclusive.  The only tolerated one is the complaint of `(get-value ...)` after `unsat`.
    let mut seen_verdict = false;
    for l in so.lines().chain(se.lines()) {
        let l = l.trim();
        if l == "unsat" || l == "sat" {
            seen_verdict = true;
        } else if l.contains("(error") || l.starts_with("Error") || l.contains("Parse Error") {
            let benign = seen_verdict && so.lines().next().map(|x| x.trim()) == Some("unsat");
            if !benign {
                return Err(format!("solver error: {}", l.chars().take(100).collect::<String>()));
            }
        }
    }
    Ok(so)
}

fn interpret(out: &str, nvars: usize) -> Verdict {
    let first = out.lines().next().unwrap_or("").trim();
    match first {
        "unsat" => Verdict::Unsat,
        "sat" => match parse_model(out, nvars) {
            Some(m) => Verdict::Sat(m),
            None => Verdict::Unknown("sat but model unparsable".into()),
        },
        "" => Verdict::Unknown("timeout or no output".into()),
        other => Verdict::Unknown(other.chars().take(60).collect()),
    }
}

pub fn run_cvc5(text: &str, nvars: usize, timeout_s: u64) -> Verdict {
    let tl = format!("--tlimit={}", timeout_s * 1000);
    match run_process("cvc5", &["--lang", "smt2", "--produce-models", &tl], text, timeout_s) {
        Ok(out) => interpret(&out, nvars),
        Err(e) => Verdict::Unknown(e),
    }
}

/// The same query over a reduced-width float format (8 exponent bits as binary32, `sb` significand bits including
/// the hidden one): every sort, constant (rounded to nearest even) and operation is re-typed.  This is the
/// "shrink the width and state the smaller bound" fall-back for queries no back end decides at full width;
/// its `unsat` is a verdict about the narrow arithmetic only, its `sat` is a candidate that counts only if it
/// reproduces in binary32 on the DAG.
pub fn narrow_text(text: &str, sb: u32) -> String {
    let fp = format!("(_ FloatingPoint 8 {})", sb);
    let mut out = String::with_capacity(text.len() + text.len() / 4);
    let pat = "((_ to_fp 8 24) #x";
    let mut rest = text;
    while let Some(p) = rest.find(pat) {
        out.push_str(&rest[..p]);
        let tail = &rest[p + pat.len()..];
        let hex: String = tail.chars().take_while(|c| c.is_ascii_hexdigit()).collect();
        // tail continues with ")"
        out.push_str(&format!("((_ to_fp 8 {}) RNE ((_ to_fp 8 24) #x{}))", sb, hex));
        rest = &tail[hex.len() + 1..];
    }
    out.push_str(rest);
    out.replace("(_ FloatingPoint 8 24)", &fp).replace("(_ +zero 8 24)", &format!("(_ +zero 8 {})", sb))
}

pub fn run_cvc5_narrow(text: &str, nvars: usize, timeout_s: u64) -> Verdict {
    let tl = format!("--tlimit={}", timeout_s * 1000);
    match run_process("cvc5", &["--lang", "smt2", "--produce-models", "--fp-exp", &tl], text, timeout_s) {
        Ok(out) => interpret(&out, nvars),
        Err(e) => Verdict::Unknown(e),
    }
}

pub fn run_z3(text: &str, nvars: usize, timeout_s: u64) -> Verdict {
    let tl = format!("-T:{}", timeout_s);
    match run_process("z3", &["-in", "-smt2", &tl], text, timeout_s) {
        Ok(out) => interpret(&out, nvars),
        Err(e) => Verdict::Unknown(e),
    }
}

/// CBMC 6.11 + kissat on the C rendering: `VERIFICATION SUCCESSFUL` = unsat, a failed assertion = sat with a trace.
pub fn run_cbmc(ctext: &str, nvars: usize, timeout_s: u64) -> Verdict {
    let dir = std::env::temp_dir();
    let path = dir.join(format!("verif-q-{}-{:016x}.c", std::process::id(), h64(ctext)));
    if std::fs::write(&path, ctext).is_err() {
        return Verdict::Unknown("cannot write C query".into());
    }
    let p = path.to_string_lossy().to_string();
    let r = run_process("cbmc", &[&p, "--no-standard-checks", "--external-sat-solver", "kissat", "--trace"], "", timeout_s);
    let _ = std::fs::remove_file(&path);
    match r {
        Ok(out) => {
            if out.contains("VERIFICATION SUCCESSFUL") {
                return Verdict::Unsat;
            }
            if out.contains("VERIFICATION FAILED") {
                // trace lines:  v3=1.5f (00111111 11000000 00000000 00000000)
                let mut m = vec![None; nvars];
                for l in out.lines() {
                    let l = l.trim();
                    if let Some(rest) = l.strip_prefix('v') {
                        if let Some((idx, tail)) = rest.split_once('=') {
                            if let (Ok(i), Some(p0)) = (idx.parse::<usize>(), tail.find('(')) {
                                let bits: String = tail[p0 + 1..].chars().take_while(|c| *c != ')').filter(|c| *c == '0' || *c == '1').collect();
                                if i < nvars && bits.len() == 32 {
                                    m[i] = u32::from_str_radix(&bits, 2).ok();
                                }
                            }
                        }
                    }
                }
                return match m.into_iter().collect::<Option<Vec<u32>>>() {
                    Some(v) => Verdict::Sat(v),
                    None => Verdict::Unknown("cbmc: failed assertion but trace incomplete".into()),
                };
            }
            Verdict::Unknown("cbmc: timeout or no verdict".into())
        }
        Err(e) => Verdict::Unknown(e),
    }
}

impl Solver {
    pub fn new(timeout_s: u64) -> Solver {
        Solver {
            timeout_s,
            cache_dir: std::env::var("VERIF_QCACHE").ok(),
            mem: StdMap::new(),
            gave_up: StdMap::new(),
            stats: SolverStats::default(),
            cross_every: std::env::var("VERIF_CROSS_EVERY").ok().and_then(|s| s.parse().ok()).unwrap_or(0),
            dump_dir: std::env::var("VERIF_DUMP").ok(),
            cbmc_fallback: std::env::var("VERIF_CBMC").map(|v| v == "1").unwrap_or(false),
            narrow_sb: std::env::var("VERIF_NARROW_SB").ok().and_then(|s| s.parse().ok()).unwrap_or(11),
            narrow_timeout_s: std::env::var("VERIF_NARROW_TIMEOUT").ok().and_then(|s| s.parse().ok()).unwrap_or(0),
        }
    }

    fn cache_get(&mut self, key: u64, text: &str) -> Option<Verdict> {
        if let Some((t, v)) = self.mem.get(&key) {
            if t == text {
                return Some(v.clone());
            }
        }
        if let Some(d) = &self.cache_dir {
            let p = format!("{}/{:016x}.q", d, key);
            if let Ok(s) = std::fs::read_to_string(&p) {
                // format: first line verdict, then "----", then the query text
                if let Some((head, body)) = s.split_once("\n----\n") {
                    if body == text {
                        let v = if head == "unsat" {
                            Some(Verdict::Unsat)
                        } else if let Some(m) = head.strip_prefix("sat ") {
                            let bits: Option<Vec<u32>> = m.split_whitespace().map(|x| u32::from_str_radix(x, 16).ok()).collect();
                            bits.map(Verdict::Sat)
                        } else if head == "sat" {
                            Some(Verdict::Sat(vec![]))
                        } else {
                            None
                        };
                        if let Some(v) = v {
                            self.mem.insert(key, (text.to_string(), v.clone()));
                            return Some(v);
                        }
                    }
                }
            }
        }
        None
    }

    fn cache_put(&mut self, key: u64, text: &str, v: &Verdict) {
        self.mem.insert(key, (text.to_string(), v.clone()));
        if let Some(d) = &self.cache_dir {
            let head = match v {
                Verdict::Unsat => "unsat".to_string(),
                Verdict::Sat(m) => {
                    if m.is_empty() {
                        "sat".to_string()
                    } else {
                        format!("sat {}", m.iter().map(|b| format!("{:08x}", b)).collect::<Vec<_>>().join(" "))
                    }
                }
                Verdict::Unknown(_) => return,
            };
            let p = format!("{}/{:016x}.q", d, key);
            let tmp = format!("{}.{}", p, std::process::id());
            if std::fs::write(&tmp, format!("{}\n----\n{}", head, text)).is_ok() {
                let _ = std::fs::rename(&tmp, &p);
            }
        }
    }

    /// Solve the queries that are not cached yet, `threads` at a time, and store the answers.
    pub fn prefetch(&mut self, todo: Vec<(Query, u64)>, threads: usize) {
        let mut fresh: Vec<(u64, Query, u64)> = vec![];
        for (q, cap) in todo {
            if q.unsupported.is_some() || cap == 0 {
                continue;
            }
            let key = h64(&q.text);
            if fresh.iter().any(|f| f.0 == key) || self.cache_get(key, &q.text).is_some() {
                continue;
            }
            if let Some(c) = self.gave_up.get(&key) {
                if *c >= cap {
                    continue;
                }
            }
            fresh.push((key, q, cap));
        }
        if fresh.len() < 2 || threads < 2 {
            return;
        }
        let results: Vec<(Verdict, f64)> = {
            let chunks: Vec<&[(u64, Query, u64)]> = fresh.chunks((fresh.len() + threads - 1) / threads).collect();
            let mut out: Vec<Vec<(Verdict, f64)>> = vec![];
            std::thread::scope(|sc| {
                let hs: Vec<_> = chunks
                    .iter()
                    .map(|ch| {
                        sc.spawn(move || {
                            ch.iter()
                                .map(|(_, q, cap)| {
                                    let t0 = Instant::now();
                                    let v = run_cvc5(&q.text, q.vars.len(), *cap);
                                    (v, t0.elapsed().as_secs_f64())
                                })
                                .collect::<Vec<_>>()
                        })
                    })
                    .collect();
                for h in hs {
                    out.push(h.join().unwrap());
                }
            });
            out.into_iter().flatten().collect()
        };
        for ((key, q, cap), (v, dt)) in fresh.iter().zip(results) {
            self.stats.queries += 1;
            self.stats.time_s += dt;
            if dt > self.stats.max_time_s {
                self.stats.max_time_s = dt;
            }
            match &v {
                Verdict::Unsat => self.stats.unsat += 1,
                Verdict::Sat(_) => self.stats.sat += 1,
                Verdict::Unknown(_) => {
                    self.stats.unknown += 1;
                    self.gave_up.insert(*key, *cap);
                }
            }
            self.cache_put(*key, &q.text, &v);
        }
    }

    /// The reduced-width version of a query that was given up at full width (cvc5 `--fp-exp`; every 5th decided
    /// one is repeated on z3, which supports arbitrary float formats natively).
    pub fn check_narrow(&mut self, q: &Query) -> Verdict {
        if q.unsupported.is_some() || self.narrow_timeout_s == 0 || self.narrow_sb < 2 || self.narrow_sb > 23 {
            return Verdict::Unknown("reduced width not attempted".into());
        }
        let text = narrow_text(&q.text, self.narrow_sb);
        let key = h64(&text);
        if let Some(v) = self.cache_get(key, &text) {
            return v;
        }
        if let Some(cap) = self.gave_up.get(&key) {
            if *cap >= self.narrow_timeout_s {
                return Verdict::Unknown("timeout at reduced width (same query gave up before)".into());
            }
        }
        let t0 = Instant::now();
        let v = run_cvc5_narrow(&text, q.vars.len(), self.narrow_timeout_s);
        let dt = t0.elapsed().as_secs_f64();
        self.stats.narrow_queries += 1;
        self.stats.narrow_time_s += dt;
        match &v {
            Verdict::Unsat => self.stats.narrow_unsat += 1,
            Verdict::Sat(_) => self.stats.narrow_sat += 1,
            Verdict::Unknown(_) => {
                self.stats.narrow_unknown += 1;
                self.gave_up.insert(key, self.narrow_timeout_s);
            }
        }
        if !matches!(v, Verdict::Unknown(_)) && (self.stats.narrow_unsat + self.stats.narrow_sat) % 5 == 1 {
            let v2 = run_z3(&text, q.vars.len(), self.narrow_timeout_s.min(20));
            match (&v, &v2) {
                (Verdict::Unsat, Verdict::Sat(_)) | (Verdict::Sat(_), Verdict::Unsat) => {
                    self.stats.narrow_cross_checked += 1;
                    self.stats.narrow_cross_disagree += 1;
                }
                (_, Verdict::Unknown(_)) => {}
                _ => self.stats.narrow_cross_checked += 1,
            }
        }
        if let Some(d) = &self.dump_dir {
            let tag = match &v {
                Verdict::Unsat => "unsat",
                Verdict::Sat(_) => "sat",
                Verdict::Unknown(_) => "unknown",
            };
            let _ = std::fs::write(format!("{}/{:016x}.narrow.{}.smt2", d, key, tag), &text);
        }
        self.cache_put(key, &text, &v);
        v
    }

    /// Decide satisfiability of the query; `Unknown` covers time-outs, errors and unsupported operations.
    pub fn check(&mut self, q: &Query) -> (Verdict, f64, bool) {
        if let Some(u) = &q.unsupported {
            return (Verdict::Unknown(u.clone()), 0.0, false);
        }
        let key = h64(&q.text);
        if let Some(v) = self.cache_get(key, &q.text) {
            self.stats.cache_hits += 1;
            return (v, 0.0, true);
        }
        if let Some(cap) = self.gave_up.get(&key) {
            if *cap >= self.timeout_s {
                self.stats.cache_hits += 1;
                return (Verdict::Unknown("timeout (same query gave up before)".into()), 0.0, true);
            }
        }
        if self.timeout_s == 0 {
            return (Verdict::Unknown("not attempted (cap 0)".into()), 0.0, false);
        }
        let t0 = Instant::now();
        let mut v = run_cvc5(&q.text, q.vars.len(), self.timeout_s);
        // second back end (thorough tier): CBMC + kissat on the C rendering, same cap
        if matches!(v, Verdict::Unknown(_)) && self.cbmc_fallback && self.timeout_s >= 10 {
            let v2 = run_cbmc(&q.ctext, q.vars.len(), self.timeout_s);
            if !matches!(v2, Verdict::Unknown(_)) {
                self.stats.cbmc_decided += 1;
                v = v2;
            }
        }
        if matches!(v, Verdict::Unknown(_)) {
            self.gave_up.insert(key, self.timeout_s);
        }
        let dt = t0.elapsed().as_secs_f64();
        self.stats.queries += 1;
        self.stats.time_s += dt;
        if dt > self.stats.max_time_s {
            self.stats.max_time_s = dt;
        }
        match &v {
            Verdict::Unsat => self.stats.unsat += 1,
            Verdict::Sat(_) => self.stats.sat += 1,
            Verdict::Unknown(_) => self.stats.unknown += 1,
        }
        if std::env::var("VERIF_VERBOSE").is_ok() && dt > 5.0 {
            eprintln!("    slow query {:016x}: {:.1}s vars={} nodes={} -> {:?}", key, dt, q.vars.len(), q.nodes, match &v { Verdict::Unsat => "unsat".to_string(), Verdict::Sat(_) => "sat".to_string(), Verdict::Unknown(w) => w.clone() });
        }
        if let Some(d) = &self.dump_dir {
            let tag = match &v {
                Verdict::Unsat => "unsat",
                Verdict::Sat(_) => "sat",
                Verdict::Unknown(_) => "unknown",
            };
            let _ = std::fs::write(format!("{}/{:016x}.{}.smt2", d, key, tag), &q.text);
        }
        // cross-check a sample on z3 (short cap: z3 is 10-40x slower on QF_FP)
        if self.cross_every > 0 && !matches!(v, Verdict::Unknown(_)) && self.stats.queries % self.cross_every == 0 {
            let v2 = run_z3(&q.text, q.vars.len(), self.timeout_s.min(20));
            match (&v, &v2) {
                (Verdict::Unsat, Verdict::Sat(_)) | (Verdict::Sat(_), Verdict::Unsat) => {
                    self.stats.cross_checked += 1;
                    self.stats.cross_disagree += 1;
                }
                (_, Verdict::Unknown(_)) => {}
                _ => self.stats.cross_checked += 1,
            }
        }
        self.cache_put(key, &q.text, &v);
        (v, dt, false)
    }
}

/// Names of the inputs in a var set.
pub fn var_names(c: &Ctx, set: &VarSet) -> Vec<String> {
    vs_iter(set).filter(|i| *i < c.vars.len()).map(|i| c.vars[i].name.clone()).collect()
}
