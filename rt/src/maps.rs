//! Association-list model of `std::collections::{HashMap, HashSet}` whose *iteration order*
//! is chosen by a process-wide policy (DESIGN.md section 3.4):
//!
//!   VERIF_ORDER=ins        insertion order (default)
//!   VERIF_ORDER=rev        reverse insertion order
//!   VERIF_ORDER=hash:<n>   order of a keyed hash of the keys (a function of keys and seed,
//!                          like std's RandomState, but reproducible)
//!
//! Look-ups, insertion, removal and equality follow the std contract.

use std::borrow::Borrow;
use std::fmt;
use std::hash::{Hash, Hasher};
use std::sync::atomic::{AtomicU64, Ordering as AtOrd};

// 0 = ins, 1 = rev, 2.. = hash seed + 2
static POLICY: AtomicU64 = AtomicU64::new(u64::MAX);

pub fn set_policy(p: &str) {
    let v = match p {
        "ins" | "" => 0,
        "rev" => 1,
        s => match s.strip_prefix("hash:").and_then(|n| n.parse::<u64>().ok()) {
            Some(n) => n + 2,
            None => panic!("VERIF_RT_UNSUPPORTED: bad order policy {}", s),
        },
    };
    POLICY.store(v, AtOrd::Relaxed);
}

fn policy() -> u64 {
    let p = POLICY.load(AtOrd::Relaxed);
    if p != u64::MAX {
        return p;
    }
    let s = std::env::var("VERIF_ORDER").unwrap_or_default();
    set_policy(&s);
    POLICY.load(AtOrd::Relaxed)
}

fn key_hash<K: Hash + ?Sized>(k: &K) -> u64 {
    // SipHash with fixed keys: deterministic across runs
    #[allow(deprecated)]
    let mut h = std::hash::SipHasher::new_with_keys(0x0123456789abcdef, 0x9E3779B97F4A7C15);
    k.hash(&mut h);
    h.finish()
}

fn mix(h: u64, seed: u64) -> u64 {
    let mut z = h ^ seed.wrapping_mul(0x9E3779B97F4A7C15);
    z = (z ^ (z >> 30)).wrapping_mul(0xBF58476D1CE4E5B9);
    z = (z ^ (z >> 27)).wrapping_mul(0x94D049BB133111EB);
    z ^ (z >> 31)
}

/// Iteration order over entries whose key hashes (taken at insertion) are `h`.
fn order(h: &[u64]) -> Vec<usize> {
    let p = policy();
    let mut idx: Vec<usize> = (0..h.len()).collect();
    match p {
        0 => {}
        1 => idx.reverse(),
        s => idx.sort_by_key(|&i| mix(h[i], s - 2)),
    }
    idx
}

fn permute_refs<T>(mut v: Vec<T>, ord: &[usize]) -> Vec<T> {
    // v[i] moves to the position where ord[pos] == i
    let mut slots: Vec<Option<T>> = v.drain(..).map(Some).collect();
    ord.iter().map(|&i| slots[i].take().unwrap()).collect()
}

#[derive(Clone)]
pub struct HashMap<K, V> {
    e: Vec<(K, V)>,
    /// key hashes, parallel to `e`
    h: Vec<u64>,
}

impl<K, V> Default for HashMap<K, V> {
    fn default() -> Self {
        HashMap { e: Vec::new(), h: Vec::new() }
    }
}

impl<K: fmt::Debug, V: fmt::Debug> fmt::Debug for HashMap<K, V> {
    fn fmt(&self, f: &mut fmt::Formatter<'_>) -> fmt::Result {
        f.debug_map().entries(self.iter()).finish()
    }
}

pub struct Iter<'a, K, V>(std::vec::IntoIter<&'a (K, V)>);
impl<'a, K, V> Iterator for Iter<'a, K, V> {
    type Item = (&'a K, &'a V);
    fn next(&mut self) -> Option<Self::Item> {
        self.0.next().map(|kv| (&kv.0, &kv.1))
    }
    fn size_hint(&self) -> (usize, Option<usize>) {
        self.0.size_hint()
    }
}
impl<'a, K, V> ExactSizeIterator for Iter<'a, K, V> {}
impl<'a, K, V> Clone for Iter<'a, K, V> {
    fn clone(&self) -> Self {
        Iter(self.0.clone())
    }
}
pub struct IterMut<'a, K, V>(std::vec::IntoIter<&'a mut (K, V)>);
impl<'a, K, V> Iterator for IterMut<'a, K, V> {
    type Item = (&'a K, &'a mut V);
    fn next(&mut self) -> Option<Self::Item> {
        self.0.next().map(|kv| (&kv.0, &mut kv.1))
    }
}
pub struct Keys<'a, K, V>(Iter<'a, K, V>);
impl<'a, K, V> Iterator for Keys<'a, K, V> {
    type Item = &'a K;
    fn next(&mut self) -> Option<Self::Item> {
        self.0.next().map(|kv| kv.0)
    }
    fn size_hint(&self) -> (usize, Option<usize>) {
        self.0.size_hint()
    }
}
impl<'a, K, V> Clone for Keys<'a, K, V> {
    fn clone(&self) -> Self {
        Keys(self.0.clone())
    }
}
pub struct Values<'a, K, V>(Iter<'a, K, V>);
impl<'a, K, V> Iterator for Values<'a, K, V> {
    type Item = &'a V;
    fn next(&mut self) -> Option<Self::Item> {
        self.0.next().map(|kv| kv.1)
    }
    fn size_hint(&self) -> (usize, Option<usize>) {
        self.0.size_hint()
    }
}
impl<'a, K, V> Clone for Values<'a, K, V> {
    fn clone(&self) -> Self {
        Values(self.0.clone())
    }
}
pub struct ValuesMut<'a, K, V>(IterMut<'a, K, V>);
impl<'a, K, V> Iterator for ValuesMut<'a, K, V> {
    type Item = &'a mut V;
    fn next(&mut self) -> Option<Self::Item> {
        self.0.next().map(|kv| kv.1)
    }
}

pub enum Entry<'a, K, V> {
    Occupied(&'a mut V),
    Vacant(&'a mut HashMap<K, V>, K),
}
impl<'a, K: Eq + Hash, V> Entry<'a, K, V> {
    pub fn and_modify<F: FnOnce(&mut V)>(self, f: F) -> Self {
        match self {
            Entry::Occupied(v) => {
                f(v);
                Entry::Occupied(v)
            }
            e => e,
        }
    }
    pub fn or_insert_with<F: FnOnce() -> V>(self, f: F) -> &'a mut V {
        match self {
            Entry::Occupied(v) => v,
            Entry::Vacant(m, k) => {
                m.h.push(key_hash(&k));
                m.e.push((k, f()));
                &mut m.e.last_mut().unwrap().1
            }
        }
    }
    pub fn or_insert_with_key<F: FnOnce(&K) -> V>(self, f: F) -> &'a mut V {
        match self {
            Entry::Occupied(v) => v,
            Entry::Vacant(m, k) => {
                let v = f(&k);
                m.h.push(key_hash(&k));
                m.e.push((k, v));
                &mut m.e.last_mut().unwrap().1
            }
        }
    }
    pub fn or_insert(self, v: V) -> &'a mut V {
        self.or_insert_with(|| v)
    }
    pub fn or_default(self) -> &'a mut V
    where
        V: Default,
    {
        self.or_insert_with(V::default)
    }
}

impl<K: Eq + Hash, V> HashMap<K, V> {
    pub fn new() -> Self {
        Self::default()
    }
    pub fn with_capacity(_n: usize) -> Self {
        Self::default()
    }
    fn pos<Q: ?Sized + Eq + Hash>(&self, k: &Q) -> Option<usize>
    where
        K: Borrow<Q>,
    {
        self.e.iter().position(|kv| kv.0.borrow() == k)
    }
    pub fn insert(&mut self, k: K, v: V) -> Option<V> {
        match self.pos(&k) {
            Some(i) => Some(std::mem::replace(&mut self.e[i].1, v)),
            None => {
                self.h.push(key_hash(&k));
                self.e.push((k, v));
                None
            }
        }
    }
    pub fn get<Q: ?Sized + Eq + Hash>(&self, k: &Q) -> Option<&V>
    where
        K: Borrow<Q>,
    {
        self.pos(k).map(|i| &self.e[i].1)
    }
    pub fn get_key_value<Q: ?Sized + Eq + Hash>(&self, k: &Q) -> Option<(&K, &V)>
    where
        K: Borrow<Q>,
    {
        self.pos(k).map(|i| (&self.e[i].0, &self.e[i].1))
    }
    pub fn get_mut<Q: ?Sized + Eq + Hash>(&mut self, k: &Q) -> Option<&mut V>
    where
        K: Borrow<Q>,
    {
        match self.pos(k) {
            Some(i) => Some(&mut self.e[i].1),
            None => None,
        }
    }
    pub fn contains_key<Q: ?Sized + Eq + Hash>(&self, k: &Q) -> bool
    where
        K: Borrow<Q>,
    {
        self.pos(k).is_some()
    }
    pub fn remove<Q: ?Sized + Eq + Hash>(&mut self, k: &Q) -> Option<V>
    where
        K: Borrow<Q>,
    {
        self.pos(k).map(|i| {
            self.h.remove(i);
            self.e.remove(i).1
        })
    }
    pub fn remove_entry<Q: ?Sized + Eq + Hash>(&mut self, k: &Q) -> Option<(K, V)>
    where
        K: Borrow<Q>,
    {
        self.pos(k).map(|i| {
            self.h.remove(i);
            self.e.remove(i)
        })
    }
    pub fn entry(&mut self, k: K) -> Entry<'_, K, V> {
        match self.pos(&k) {
            Some(i) => Entry::Occupied(&mut self.e[i].1),
            None => Entry::Vacant(self, k),
        }
    }
    pub fn retain<F: FnMut(&K, &mut V) -> bool>(&mut self, mut f: F) {
        let ord = self.ord();
        let mut keep = vec![true; self.e.len()];
        for i in ord {
            let (k, v) = &mut self.e[i];
            keep[i] = f(k, v);
        }
        let mut it = keep.iter();
        self.e.retain(|_| *it.next().unwrap());
        let mut it = keep.iter();
        self.h.retain(|_| *it.next().unwrap());
    }
    pub fn extend_from<I: IntoIterator<Item = (K, V)>>(&mut self, it: I) {
        for (k, v) in it {
            self.insert(k, v);
        }
    }
}

impl<K, V> HashMap<K, V> {
    fn ord(&self) -> Vec<usize> {
        order(&self.h)
    }
    pub fn iter(&self) -> Iter<'_, K, V> {
        let ord = self.ord();
        Iter(ord.into_iter().map(|i| &self.e[i]).collect::<Vec<_>>().into_iter())
    }
    pub fn iter_mut(&mut self) -> IterMut<'_, K, V> {
        let ord = self.ord();
        let refs: Vec<&mut (K, V)> = self.e.iter_mut().collect();
        IterMut(permute_refs(refs, &ord).into_iter())
    }
    pub fn keys(&self) -> Keys<'_, K, V> {
        Keys(self.iter())
    }
    pub fn values(&self) -> Values<'_, K, V> {
        Values(self.iter())
    }
    pub fn values_mut(&mut self) -> ValuesMut<'_, K, V> {
        ValuesMut(self.iter_mut())
    }
    pub fn into_keys(self) -> impl Iterator<Item = K> {
        self.into_iter().map(|kv| kv.0)
    }
    pub fn into_values(self) -> impl Iterator<Item = V> {
        self.into_iter().map(|kv| kv.1)
    }
    pub fn drain(&mut self) -> std::vec::IntoIter<(K, V)> {
        let ord = self.ord();
        self.h.clear();
        let v: Vec<(K, V)> = self.e.drain(..).collect();
        permute_refs(v, &ord).into_iter()
    }
}
impl<K, V> HashMap<K, V> {
    pub fn len(&self) -> usize {
        self.e.len()
    }
    pub fn is_empty(&self) -> bool {
        self.e.is_empty()
    }
    pub fn clear(&mut self) {
        self.e.clear();
        self.h.clear()
    }
    pub fn capacity(&self) -> usize {
        self.e.capacity()
    }
    pub fn reserve(&mut self, _n: usize) {}
    pub fn shrink_to_fit(&mut self) {}
}
impl<K: Eq + Hash + Borrow<Q>, Q: ?Sized + Eq + Hash, V> std::ops::Index<&Q> for HashMap<K, V> {
    type Output = V;
    fn index(&self, k: &Q) -> &V {
        self.get(k).expect("no entry found for key")
    }
}
impl<'a, K, V> IntoIterator for &'a HashMap<K, V> {
    type Item = (&'a K, &'a V);
    type IntoIter = Iter<'a, K, V>;
    fn into_iter(self) -> Self::IntoIter {
        self.iter()
    }
}
impl<'a, K, V> IntoIterator for &'a mut HashMap<K, V> {
    type Item = (&'a K, &'a mut V);
    type IntoIter = IterMut<'a, K, V>;
    fn into_iter(self) -> Self::IntoIter {
        self.iter_mut()
    }
}
impl<K, V> IntoIterator for HashMap<K, V> {
    type Item = (K, V);
    type IntoIter = std::vec::IntoIter<(K, V)>;
    fn into_iter(self) -> Self::IntoIter {
        let ord = self.ord();
        permute_refs(self.e, &ord).into_iter()
    }
}
impl<K: Eq + Hash, V> FromIterator<(K, V)> for HashMap<K, V> {
    fn from_iter<I: IntoIterator<Item = (K, V)>>(it: I) -> Self {
        let mut m = HashMap::new();
        for (k, v) in it {
            m.insert(k, v);
        }
        m
    }
}
impl<K: Eq + Hash, V> Extend<(K, V)> for HashMap<K, V> {
    fn extend<I: IntoIterator<Item = (K, V)>>(&mut self, it: I) {
        for (k, v) in it {
            self.insert(k, v);
        }
    }
}
impl<'a, K: Eq + Hash + Copy, V: Copy> Extend<(&'a K, &'a V)> for HashMap<K, V> {
    fn extend<I: IntoIterator<Item = (&'a K, &'a V)>>(&mut self, it: I) {
        for (k, v) in it {
            self.insert(*k, *v);
        }
    }
}
impl<K: Eq + Hash, V, const N: usize> From<[(K, V); N]> for HashMap<K, V> {
    fn from(a: [(K, V); N]) -> Self {
        a.into_iter().collect()
    }
}
impl<K: Eq + Hash, V: PartialEq> PartialEq for HashMap<K, V> {
    fn eq(&self, o: &Self) -> bool {
        self.len() == o.len() && self.e.iter().all(|(k, v)| o.get(k) == Some(v))
    }
}
impl<K: Eq + Hash, V: Eq> Eq for HashMap<K, V> {}

impl<K: serde::Serialize, V: serde::Serialize> serde::Serialize for HashMap<K, V> {
    fn serialize<S: serde::Serializer>(&self, s: S) -> Result<S::Ok, S::Error> {
        s.collect_map(self.iter())
    }
}
impl<'de, K: Eq + Hash + serde::Deserialize<'de>, V: serde::Deserialize<'de>> serde::Deserialize<'de> for HashMap<K, V> {
    fn deserialize<D: serde::Deserializer<'de>>(d: D) -> Result<Self, D::Error> {
        struct Vis<K, V>(std::marker::PhantomData<(K, V)>);
        impl<'de, K: Eq + Hash + serde::Deserialize<'de>, V: serde::Deserialize<'de>> serde::de::Visitor<'de> for Vis<K, V> {
            type Value = HashMap<K, V>;
            fn expecting(&self, f: &mut fmt::Formatter) -> fmt::Result {
                f.write_str("a map")
            }
            fn visit_map<A: serde::de::MapAccess<'de>>(self, mut a: A) -> Result<Self::Value, A::Error> {
                let mut m = HashMap::new();
                while let Some((k, v)) = a.next_entry()? {
                    m.insert(k, v);
                }
                Ok(m)
            }
        }
        d.deserialize_map(Vis(std::marker::PhantomData))
    }
}

// ------------------------------------------------------------------ HashSet

#[derive(Clone)]
pub struct HashSet<T> {
    e: Vec<T>,
    h: Vec<u64>,
}
impl<T> Default for HashSet<T> {
    fn default() -> Self {
        HashSet { e: Vec::new(), h: Vec::new() }
    }
}
impl<T: fmt::Debug> fmt::Debug for HashSet<T> {
    fn fmt(&self, f: &mut fmt::Formatter<'_>) -> fmt::Result {
        f.debug_set().entries(self.iter()).finish()
    }
}
impl<T> HashSet<T> {
    fn ord(&self) -> Vec<usize> {
        order(&self.h)
    }
    pub fn iter(&self) -> std::vec::IntoIter<&T> {
        let ord = self.ord();
        ord.into_iter().map(|i| &self.e[i]).collect::<Vec<_>>().into_iter()
    }
    pub fn drain(&mut self) -> std::vec::IntoIter<T> {
        let ord = self.ord();
        self.h.clear();
        let v: Vec<T> = self.e.drain(..).collect();
        permute_refs(v, &ord).into_iter()
    }
}
impl<T> HashSet<T> {
    pub fn len(&self) -> usize {
        self.e.len()
    }
    pub fn is_empty(&self) -> bool {
        self.e.is_empty()
    }
    pub fn clear(&mut self) {
        self.e.clear();
        self.h.clear()
    }
}
impl<T: Eq + Hash> HashSet<T> {
    pub fn new() -> Self {
        Self::default()
    }
    pub fn with_capacity(_n: usize) -> Self {
        Self::default()
    }
    pub fn insert(&mut self, t: T) -> bool {
        if self.e.contains(&t) {
            false
        } else {
            self.h.push(key_hash(&t));
            self.e.push(t);
            true
        }
    }
    pub fn contains<Q: ?Sized + Eq + Hash>(&self, t: &Q) -> bool
    where
        T: Borrow<Q>,
    {
        self.e.iter().any(|x| x.borrow() == t)
    }
    pub fn get<Q: ?Sized + Eq + Hash>(&self, t: &Q) -> Option<&T>
    where
        T: Borrow<Q>,
    {
        self.e.iter().find(|x| (*x).borrow() == t)
    }
    pub fn remove<Q: ?Sized + Eq + Hash>(&mut self, t: &Q) -> bool
    where
        T: Borrow<Q>,
    {
        match self.e.iter().position(|x| x.borrow() == t) {
            Some(i) => {
                self.e.remove(i);
                self.h.remove(i);
                true
            }
            None => false,
        }
    }
    pub fn retain<F: FnMut(&T) -> bool>(&mut self, mut f: F) {
        let keep: Vec<bool> = self.e.iter().map(|x| f(x)).collect();
        let mut it = keep.iter();
        self.e.retain(|_| *it.next().unwrap());
        let mut it = keep.iter();
        self.h.retain(|_| *it.next().unwrap());
    }
    pub fn is_subset(&self, o: &HashSet<T>) -> bool {
        self.e.iter().all(|x| o.contains(x))
    }
    pub fn is_superset(&self, o: &HashSet<T>) -> bool {
        o.is_subset(self)
    }
    pub fn is_disjoint(&self, o: &HashSet<T>) -> bool {
        self.e.iter().all(|x| !o.contains(x))
    }
    pub fn union<'a>(&'a self, o: &'a HashSet<T>) -> std::vec::IntoIter<&'a T> {
        let mut v: Vec<&T> = self.iter().collect();
        v.extend(o.iter().filter(|x| !self.contains(*x)));
        v.into_iter()
    }
    pub fn intersection<'a>(&'a self, o: &'a HashSet<T>) -> std::vec::IntoIter<&'a T> {
        self.iter().filter(|x| o.contains(*x)).collect::<Vec<_>>().into_iter()
    }
    pub fn difference<'a>(&'a self, o: &'a HashSet<T>) -> std::vec::IntoIter<&'a T> {
        self.iter().filter(|x| !o.contains(*x)).collect::<Vec<_>>().into_iter()
    }
}
impl<'a, T> IntoIterator for &'a HashSet<T> {
    type Item = &'a T;
    type IntoIter = std::vec::IntoIter<&'a T>;
    fn into_iter(self) -> Self::IntoIter {
        self.iter()
    }
}
impl<T> IntoIterator for HashSet<T> {
    type Item = T;
    type IntoIter = std::vec::IntoIter<T>;
    fn into_iter(self) -> Self::IntoIter {
        let ord = self.ord();
        permute_refs(self.e, &ord).into_iter()
    }
}
impl<T: Eq + Hash> FromIterator<T> for HashSet<T> {
    fn from_iter<I: IntoIterator<Item = T>>(it: I) -> Self {
        let mut s = HashSet::new();
        for t in it {
            s.insert(t);
        }
        s
    }
}
impl<T: Eq + Hash> Extend<T> for HashSet<T> {
    fn extend<I: IntoIterator<Item = T>>(&mut self, it: I) {
        for t in it {
            self.insert(t);
        }
    }
}
impl<T: Eq + Hash, const N: usize> From<[T; N]> for HashSet<T> {
    fn from(a: [T; N]) -> Self {
        a.into_iter().collect()
    }
}
impl<T: Eq + Hash> PartialEq for HashSet<T> {
    fn eq(&self, o: &Self) -> bool {
        self.len() == o.len() && self.is_subset(o)
    }
}
impl<T: Eq + Hash> Eq for HashSet<T> {}
impl<T: serde::Serialize> serde::Serialize for HashSet<T> {
    fn serialize<S: serde::Serializer>(&self, s: S) -> Result<S::Ok, S::Error> {
        s.collect_seq(self.iter())
    }
}
impl<'de, T: Eq + Hash + serde::Deserialize<'de>> serde::Deserialize<'de> for HashSet<T> {
    fn deserialize<D: serde::Deserializer<'de>>(d: D) -> Result<Self, D::Error> {
        let v: Vec<T> = Vec::deserialize(d)?;
        Ok(v.into_iter().collect())
    }
}
