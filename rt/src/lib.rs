//! verif_rt: the symbolic scalar `Sf` that replaces `f32` in lifted builds of cteepbd, the
//! per-path expression DAG, the concolic path explorer, the SMT back ends and the hash-map
//! model with controllable iteration order.  See /verif/DESIGN.md sections 2.1 and 3.4.

pub mod bx;
pub mod cast;
pub mod dag;
pub mod explore;
pub mod maps;
pub mod procmode;
pub mod scalar;
pub mod smt;

pub use maps::{HashMap, HashSet};
pub use scalar::{Logic, Scalar};

/// Replacement for `std::collections` in lifted sources.
pub mod collections {
    pub use crate::maps::{HashMap, HashSet};
    pub use std::collections::{BTreeMap, BTreeSet, BinaryHeap, LinkedList, VecDeque};
    pub mod hash_map {
        pub use crate::maps::{Entry, HashMap};
    }
    pub mod hash_set {
        pub use crate::maps::HashSet;
    }
}

use dag::{Cmp, Op};
use std::cmp::Ordering;
use std::fmt;
use std::ops::*;

/// A binary32 value: concrete, or a node of the current path's DAG.
#[derive(Clone, Copy)]
pub enum Sf {
    C(f32),
    S(u32),
}

impl Sf {
    pub const EPSILON: Sf = Sf::C(f32::EPSILON);
    pub const MAX: Sf = Sf::C(f32::MAX);
    pub const MIN: Sf = Sf::C(f32::MIN);
    pub const MIN_POSITIVE: Sf = Sf::C(f32::MIN_POSITIVE);
    pub const INFINITY: Sf = Sf::C(f32::INFINITY);
    pub const NEG_INFINITY: Sf = Sf::C(f32::NEG_INFINITY);
    pub const NAN: Sf = Sf::C(f32::NAN);

    /// Concrete value; a symbolic value here means the lifted code used an operation the
    /// runtime does not model (reported by the driver as a tool failure, never as a verdict).
    #[inline]
    pub fn c(self) -> f32 {
        match self {
            Sf::C(v) => v,
            Sf::S(_) => panic!("VERIF_RT_UNSUPPORTED: symbolic value concretised"),
        }
    }
    /// Shadow (witness) value.
    pub fn shadow(self) -> f32 {
        match self {
            Sf::C(v) => v,
            Sf::S(i) => dag::with(|c| c.val[i as usize]),
        }
    }
    pub fn abs(self) -> Sf {
        dag::mk1(Op::Abs, self)
    }
    pub fn round(self) -> Sf {
        dag::mk1(Op::Round, self)
    }
    pub fn min(self, o: Sf) -> Sf {
        dag::mk(Op::Min, self, o)
    }
    pub fn max(self, o: Sf) -> Sf {
        dag::mk(Op::Max, self, o)
    }
    pub fn is_nan(self) -> bool {
        // x != x
        match self {
            Sf::C(v) => v.is_nan(),
            Sf::S(_) => !dag::decide(Cmp::Eq, self, self),
        }
    }
    pub fn is_finite(self) -> bool {
        match self {
            Sf::C(v) => v.is_finite(),
            Sf::S(_) => dag::decide(Cmp::Lt, self.abs(), Sf::C(f32::INFINITY)),
        }
    }
    pub fn is_infinite(self) -> bool {
        match self {
            Sf::C(v) => v.is_infinite(),
            Sf::S(_) => dag::decide(Cmp::Eq, self.abs(), Sf::C(f32::INFINITY)),
        }
    }
    pub fn recip(self) -> Sf {
        Sf::C(1.0) / self
    }
    pub fn clamp(self, lo: Sf, hi: Sf) -> Sf {
        self.max(lo).min(hi)
    }
    /// Structural identity: same constant bits or same DAG node.
    pub fn same(self, o: Sf) -> bool {
        dag::Arg::of(self) == dag::Arg::of(o)
    }
}

impl Default for Sf {
    fn default() -> Self {
        Sf::C(0.0)
    }
}

impl fmt::Debug for Sf {
    fn fmt(&self, f: &mut fmt::Formatter<'_>) -> fmt::Result {
        match self {
            Sf::C(v) => fmt::Debug::fmt(v, f),
            Sf::S(i) => write!(f, "?_{}", i),
        }
    }
}

impl fmt::Display for Sf {
    fn fmt(&self, f: &mut fmt::Formatter<'_>) -> fmt::Result {
        match self {
            Sf::C(v) => fmt::Display::fmt(v, f),
            Sf::S(i) => write!(f, "?_{}", i),
        }
    }
}

impl fmt::LowerExp for Sf {
    fn fmt(&self, f: &mut fmt::Formatter<'_>) -> fmt::Result {
        match self {
            Sf::C(v) => fmt::LowerExp::fmt(v, f),
            Sf::S(i) => write!(f, "?_{}", i),
        }
    }
}

impl std::str::FromStr for Sf {
    type Err = std::num::ParseFloatError;
    fn from_str(s: &str) -> Result<Sf, Self::Err> {
        if let Some(tok) = s.strip_prefix('?') {
            if let Some(v) = dag::placeholder(tok) {
                return Ok(v);
            }
        }
        s.parse::<f32>().map(Sf::C)
    }
}

impl PartialEq for Sf {
    fn eq(&self, o: &Sf) -> bool {
        dag::decide(Cmp::Eq, *self, *o)
    }
}

impl PartialOrd for Sf {
    fn partial_cmp(&self, o: &Sf) -> Option<Ordering> {
        if let (Sf::C(a), Sf::C(b)) = (*self, *o) {
            return a.partial_cmp(&b);
        }
        if dag::decide(Cmp::Lt, *self, *o) {
            Some(Ordering::Less)
        } else if dag::decide(Cmp::Eq, *self, *o) {
            Some(Ordering::Equal)
        } else if dag::decide(Cmp::Lt, *o, *self) {
            Some(Ordering::Greater)
        } else {
            None
        }
    }
    fn lt(&self, o: &Sf) -> bool {
        dag::decide(Cmp::Lt, *self, *o)
    }
    fn le(&self, o: &Sf) -> bool {
        dag::decide(Cmp::Le, *self, *o)
    }
    fn gt(&self, o: &Sf) -> bool {
        dag::decide(Cmp::Lt, *o, *self)
    }
    fn ge(&self, o: &Sf) -> bool {
        dag::decide(Cmp::Le, *o, *self)
    }
}

macro_rules! binop {
    ($tr:ident, $m:ident, $sop:ident) => {
        impl $tr<Sf> for Sf {
            type Output = Sf;
            #[inline]
            fn $m(self, o: Sf) -> Sf {
                dag::mk(Op::$sop, self, o)
            }
        }
        impl<'a> $tr<&'a Sf> for Sf {
            type Output = Sf;
            #[inline]
            fn $m(self, o: &Sf) -> Sf {
                dag::mk(Op::$sop, self, *o)
            }
        }
        impl<'a> $tr<Sf> for &'a Sf {
            type Output = Sf;
            #[inline]
            fn $m(self, o: Sf) -> Sf {
                dag::mk(Op::$sop, *self, o)
            }
        }
        impl<'a, 'b> $tr<&'b Sf> for &'a Sf {
            type Output = Sf;
            #[inline]
            fn $m(self, o: &Sf) -> Sf {
                dag::mk(Op::$sop, *self, *o)
            }
        }
    };
}
binop!(Add, add, Add);
binop!(Sub, sub, Sub);
binop!(Mul, mul, Mul);
binop!(Div, div, Div);
binop!(Rem, rem, Rem);

macro_rules! asgop {
    ($tr:ident, $m:ident, $sop:ident) => {
        impl $tr<Sf> for Sf {
            #[inline]
            fn $m(&mut self, o: Sf) {
                *self = dag::mk(Op::$sop, *self, o);
            }
        }
        impl<'a> $tr<&'a Sf> for Sf {
            #[inline]
            fn $m(&mut self, o: &Sf) {
                *self = dag::mk(Op::$sop, *self, *o);
            }
        }
    };
}
asgop!(AddAssign, add_assign, Add);
asgop!(SubAssign, sub_assign, Sub);
asgop!(MulAssign, mul_assign, Mul);
asgop!(DivAssign, div_assign, Div);
asgop!(RemAssign, rem_assign, Rem);

impl Neg for Sf {
    type Output = Sf;
    fn neg(self) -> Sf {
        dag::mk1(Op::Neg, self)
    }
}
impl<'a> Neg for &'a Sf {
    type Output = Sf;
    fn neg(self) -> Sf {
        dag::mk1(Op::Neg, *self)
    }
}

// `core::iter::Sum for f32` folds from -0.0 in the pinned toolchain (checked by a unit test below)
impl std::iter::Sum<Sf> for Sf {
    fn sum<I: Iterator<Item = Sf>>(it: I) -> Sf {
        it.fold(Sf::C(-0.0), |a, b| a + b)
    }
}
impl<'a> std::iter::Sum<&'a Sf> for Sf {
    fn sum<I: Iterator<Item = &'a Sf>>(it: I) -> Sf {
        it.fold(Sf::C(-0.0), |a, b| a + *b)
    }
}
impl std::iter::Product<Sf> for Sf {
    fn product<I: Iterator<Item = Sf>>(it: I) -> Sf {
        it.fold(Sf::C(1.0), |a, b| a * b)
    }
}
impl<'a> std::iter::Product<&'a Sf> for Sf {
    fn product<I: Iterator<Item = &'a Sf>>(it: I) -> Sf {
        it.fold(Sf::C(1.0), |a, b| a * *b)
    }
}

impl From<f32> for Sf {
    fn from(v: f32) -> Sf {
        Sf::C(v)
    }
}

// ------------------------------------------------------------------ serde

impl serde::Serialize for Sf {
    fn serialize<S: serde::Serializer>(&self, s: S) -> Result<S::Ok, S::Error> {
        match self {
            Sf::C(v) => s.serialize_f32(*v),
            Sf::S(i) => s.serialize_str(&format!("?_{}", i)),
        }
    }
}

impl<'de> serde::Deserialize<'de> for Sf {
    fn deserialize<D: serde::Deserializer<'de>>(d: D) -> Result<Self, D::Error> {
        struct V;
        impl<'de> serde::de::Visitor<'de> for V {
            type Value = Sf;
            fn expecting(&self, f: &mut fmt::Formatter) -> fmt::Result {
                f.write_str("a number or a ?placeholder")
            }
            fn visit_f64<E: serde::de::Error>(self, v: f64) -> Result<Sf, E> {
                Ok(Sf::C(v as f32))
            }
            fn visit_f32<E: serde::de::Error>(self, v: f32) -> Result<Sf, E> {
                Ok(Sf::C(v))
            }
            fn visit_i64<E: serde::de::Error>(self, v: i64) -> Result<Sf, E> {
                Ok(Sf::C(v as f32))
            }
            fn visit_u64<E: serde::de::Error>(self, v: u64) -> Result<Sf, E> {
                Ok(Sf::C(v as f32))
            }
            fn visit_str<E: serde::de::Error>(self, v: &str) -> Result<Sf, E> {
                v.parse::<Sf>().map_err(|_| E::custom("bad placeholder"))
            }
        }
        d.deserialize_any(V)
    }
}

/// `serializer.serialize_f32(x)` in lifted sources becomes `serializer.serialize_sf(x)`.
pub trait SerializerSfExt: serde::Serializer + Sized {
    fn serialize_sf(self, v: Sf) -> Result<Self::Ok, Self::Error> {
        serde::Serialize::serialize(&v, self)
    }
}
impl<S: serde::Serializer> SerializerSfExt for S {}

// ------------------------------------------------------------------ num-traits surface

impl num_traits::Zero for Sf {
    fn zero() -> Sf {
        Sf::C(0.0)
    }
    fn is_zero(&self) -> bool {
        *self == Sf::C(0.0)
    }
}
impl num_traits::One for Sf {
    fn one() -> Sf {
        Sf::C(1.0)
    }
}
impl num_traits::Num for Sf {
    type FromStrRadixErr = num_traits::ParseFloatError;
    fn from_str_radix(s: &str, r: u32) -> Result<Sf, Self::FromStrRadixErr> {
        <f32 as num_traits::Num>::from_str_radix(s, r).map(Sf::C)
    }
}
impl num_traits::ToPrimitive for Sf {
    fn to_i64(&self) -> Option<i64> {
        num_traits::ToPrimitive::to_i64(&self.c())
    }
    fn to_u64(&self) -> Option<u64> {
        num_traits::ToPrimitive::to_u64(&self.c())
    }
    fn to_f64(&self) -> Option<f64> {
        Some(self.c() as f64)
    }
    fn to_f32(&self) -> Option<f32> {
        Some(self.c())
    }
}
impl num_traits::NumCast for Sf {
    fn from<T: num_traits::ToPrimitive>(n: T) -> Option<Sf> {
        n.to_f32().map(Sf::C)
    }
}

macro_rules! fl0 { ($($m:ident),*) => { $(fn $m() -> Sf { Sf::C(<f32 as num_traits::Float>::$m()) })* } }
macro_rules! fl1 { ($($m:ident),*) => { $(fn $m(self) -> Sf { Sf::C(num_traits::Float::$m(self.c())) })* } }
macro_rules! fl2 { ($($m:ident),*) => { $(fn $m(self, o: Sf) -> Sf { Sf::C(num_traits::Float::$m(self.c(), o.c())) })* } }

impl num_traits::Float for Sf {
    fl0!(nan, infinity, neg_infinity, neg_zero, min_value, min_positive_value, max_value, epsilon);
    fn is_nan(self) -> bool {
        Sf::is_nan(self)
    }
    fn is_infinite(self) -> bool {
        Sf::is_infinite(self)
    }
    fn is_finite(self) -> bool {
        Sf::is_finite(self)
    }
    fn is_normal(self) -> bool {
        self.c().is_normal()
    }
    fn is_sign_positive(self) -> bool {
        self.c().is_sign_positive()
    }
    fn is_sign_negative(self) -> bool {
        self.c().is_sign_negative()
    }
    fn classify(self) -> std::num::FpCategory {
        self.c().classify()
    }
    fn abs(self) -> Sf {
        Sf::abs(self)
    }
    fn round(self) -> Sf {
        Sf::round(self)
    }
    fl1!(floor, ceil, trunc, fract, signum, sqrt, exp, exp2, ln, log2, log10, cbrt, sin, cos, tan, asin, acos, atan, exp_m1, ln_1p, sinh, cosh, tanh, asinh, acosh, atanh, to_degrees, to_radians);
    fl2!(powf, log, abs_sub, hypot, atan2);
    fn recip(self) -> Sf {
        Sf::recip(self)
    }
    fn min(self, o: Sf) -> Sf {
        Sf::min(self, o)
    }
    fn max(self, o: Sf) -> Sf {
        Sf::max(self, o)
    }
    fn mul_add(self, a: Sf, b: Sf) -> Sf {
        Sf::C(self.c().mul_add(a.c(), b.c()))
    }
    fn powi(self, n: i32) -> Sf {
        Sf::C(self.c().powi(n))
    }
    fn sin_cos(self) -> (Sf, Sf) {
        let (a, b) = self.c().sin_cos();
        (Sf::C(a), Sf::C(b))
    }
    fn integer_decode(self) -> (u64, i16, i8) {
        num_traits::Float::integer_decode(self.c())
    }
}

#[cfg(test)]
mod tests {
    use super::*;
    #[test]
    fn std_sum_folds_from_negative_zero() {
        let e: [f32; 0] = [];
        let s: f32 = e.iter().sum();
        assert!(s == 0.0 && s.is_sign_negative(), "core::iter::Sum for f32 no longer folds from -0.0");
        let s: f32 = [0.0f32].iter().sum();
        assert!(s.is_sign_positive());
    }
    #[test]
    fn concrete_ops_are_f32_ops() {
        dag::reset(Default::default(), 0, true);
        let a = Sf::C(0.1);
        let b = Sf::C(0.2);
        assert_eq!((a + b).c().to_bits(), (0.1f32 + 0.2f32).to_bits());
        assert_eq!((a / b).c().to_bits(), (0.1f32 / 0.2f32).to_bits());
        assert_eq!(format!("{:.2}", a), "0.10");
    }
    #[test]
    fn casts_concretise_and_pin() {
        let mut w = std::collections::HashMap::new();
        w.insert("x".to_string(), 3.75f32.to_bits());
        w.insert("y".to_string(), (-2.5f32).to_bits());
        dag::reset(w, 0, true);
        let x = dag::input("x", dag::Dom::Range(-100.0, 100.0));
        let y = dag::input("y", dag::Dom::Range(-100.0, 100.0));
        assert_eq!(cast::to_i32(x), 3);
        assert_eq!(cast::to_i64(y), -2);
        assert_eq!(cast::to_usize(y), 0);
        assert_eq!(cast::to_f32(7usize).c(), 7.0);
        assert_eq!(cast::to_u8(300i32), 44);
        // two pinning comparisons per symbolic cast
        dag::with(|c| assert_eq!(c.trace.len(), 4));
    }
    #[test]
    fn symbolic_shadow_matches() {
        let mut w = std::collections::HashMap::new();
        w.insert("x".to_string(), 3.5f32.to_bits());
        w.insert("y".to_string(), 1.25f32.to_bits());
        dag::reset(w, 0, true);
        let x = dag::input("x", dag::Dom::EnergyPos);
        let y = dag::input("y", dag::Dom::EnergyPos);
        let z = (x + y) * Sf::C(2.0) - x.min(y);
        assert_eq!(z.shadow(), (3.5 + 1.25) * 2.0 - 1.25);
        assert!(x > y);
        assert!(!(x < y));
        dag::with(|c| assert_eq!(c.trace.len(), 1));
    }
}
