//! Per-path expression DAG: hash-consed IEEE-754 binary32 operations with a concrete
//! shadow value (the current witness), a sound interval, and the set of input variables
//! each node depends on.  One `Ctx` lives in a thread-local and is reset for every path.

use crate::Sf;
use std::cell::RefCell;
use std::collections::HashMap as StdMap;

#[derive(Clone, Copy, Debug, PartialEq, Eq, Hash, PartialOrd, Ord)]
pub enum Op {
    Var,
    Add,
    Sub,
    Mul,
    Div,
    Rem,
    Min,
    Max,
    Abs,
    Neg,
    Round,
}

#[derive(Clone, Copy, Debug, PartialEq, Eq, Hash, PartialOrd, Ord)]
pub enum Cmp {
    Lt,
    Le,
    Eq,
}

/// Hashable operand: constant bit pattern or node id.
#[derive(Clone, Copy, Debug, PartialEq, Eq, Hash, PartialOrd, Ord)]
pub enum Arg {
    K(u32),
    N(u32),
}

impl Arg {
    pub fn of(x: Sf) -> Arg {
        match x {
            Sf::C(v) => Arg::K(v.to_bits()),
            Sf::S(i) => Arg::N(i),
        }
    }
    pub fn sf(self) -> Sf {
        match self {
            Arg::K(b) => Sf::C(f32::from_bits(b)),
            Arg::N(i) => Sf::S(i),
        }
    }
}

#[derive(Clone, Copy, Debug)]
pub struct Node {
    pub op: Op,
    pub a: Arg,
    pub b: Arg,
}

/// Input domains (DESIGN.md section 3.1).
#[derive(Clone, Copy, Debug, PartialEq)]
pub enum Dom {
    /// +0.0 or [0.01, 1e6]; the zero / non-zero regime is decided when the input is created
    Energy,
    /// [0.01, 1e6]
    EnergyPos,
    /// +0.0 or [0.01, 1e6] or [-1e6, -0.01] (output energy)
    EnergySigned,
    /// +0.0 or [0.01,1e6], without the up-front regime split
    EnergyLazy,
    /// +0.0 or [lo, hi] (0 < lo), regime decided at creation
    EnergyR(f32, f32),
    /// [lo, hi], finite
    Range(f32, f32),
    /// all 2^32 bit patterns
    AnyBits,
}

pub const E_MIN: f32 = 0.01;
pub const E_MAX: f32 = 1.0e6;

/// Sound enclosure of the values a node can take on the current path.
#[derive(Clone, Copy, Debug)]
pub struct Iv {
    pub lo: f32,
    pub hi: f32,
    pub nan: bool,
    /// may be -0.0
    pub nz: bool,
}

impl Iv {
    pub const TOP: Iv = Iv { lo: f32::NEG_INFINITY, hi: f32::INFINITY, nan: true, nz: true };
    pub fn point(v: f32) -> Iv {
        if v.is_nan() {
            Iv::TOP
        } else {
            Iv { lo: v, hi: v, nan: false, nz: v == 0.0 && v.is_sign_negative() }
        }
    }
    pub fn finite(&self) -> bool {
        !self.nan && self.lo.is_finite() && self.hi.is_finite()
    }
    pub fn contains_zero(&self) -> bool {
        self.nan || (self.lo <= 0.0 && self.hi >= 0.0)
    }
}

pub type VarSet = [u64; 4];
pub fn vs_or(a: &VarSet, b: &VarSet) -> VarSet {
    [a[0] | b[0], a[1] | b[1], a[2] | b[2], a[3] | b[3]]
}
pub fn vs_and_any(a: &VarSet, b: &VarSet) -> bool {
    (a[0] & b[0]) | (a[1] & b[1]) | (a[2] & b[2]) | (a[3] & b[3]) != 0
}
pub fn vs_empty(a: &VarSet) -> bool {
    a[0] | a[1] | a[2] | a[3] == 0
}
pub fn vs_bit(i: usize) -> VarSet {
    assert!(i < 256, "VERIF_RT_UNSUPPORTED: more than 256 symbolic inputs on one path");
    let mut v = [0u64; 4];
    v[i / 64] = 1 << (i % 64);
    v
}
pub fn vs_iter(a: &VarSet) -> impl Iterator<Item = usize> + '_ {
    (0..256).filter(move |i| a[i / 64] >> (i % 64) & 1 == 1)
}

#[derive(Clone, Debug)]
pub struct VarInfo {
    pub node: u32,
    pub name: String,
    pub dom: Dom,
    /// domain restricted by the regime decision taken at creation: (lo, hi)
    pub lo: f32,
    pub hi: f32,
    pub zero_ok: bool,
}

#[derive(Clone, Copy, Debug, PartialEq, Eq)]
pub enum Kind {
    /// zero / non-zero / sign regime of an input, taken at creation
    Regime,
    /// comparison executed by the code under test
    Branch,
}

#[derive(Clone, Debug)]
pub struct Decision {
    pub cmp: Cmp,
    pub a: Arg,
    pub b: Arg,
    pub side: bool,
    pub kind: Kind,
    pub vars: VarSet,
}

#[derive(Default)]
pub struct Stats {
    pub decided_cache: u64,
    pub decided_interval: u64,
    pub decided_witness: u64,
    pub simplified: u64,
}

pub struct Ctx {
    pub nodes: Vec<Node>,
    pub val: Vec<f32>,
    pub iv: Vec<Iv>,
    pub vset: Vec<VarSet>,
    /// granularity: the value is an integer multiple of 2^quant (i16::MIN: unknown, i16::MAX: the value is zero).
    /// Inputs >= 0.01 are multiples of 2^-30; +, -, min, max, abs, neg keep the smaller granularity (a correctly
    /// rounded sum of multiples of q is a multiple of q); products and quotients lose it.  A non-zero value
    /// with granularity q has magnitude >= q, which bounds divisions by "tiny" differences.
    pub quant: Vec<i16>,
    /// number of decisions taken before the node came into existence (spec-mode nodes: max over operands)
    pub born: Vec<u32>,
    /// true while the harness (not the code under test) is building terms
    pub spec_mode: bool,
    pub cons: StdMap<(Op, Arg, Arg), u32>,
    pub vars: Vec<VarInfo>,
    pub names: StdMap<String, Sf>,
    pub witness: StdMap<String, u32>,
    pub trace: Vec<Decision>,
    pub cache: StdMap<(Cmp, Arg, Arg), bool>,
    pub stats: Stats,
    pub simplify: bool,
    pub seed: u64,
    /// forced regime choice for new inputs beyond the witness (None: take from default generator)
    pub internal_error: Option<String>,
    /// free-form log lines from the runtime (printed by the driver in verbose mode)
    pub outs: Vec<(String, Sf)>,
    pub obs: Vec<Ob>,
    pub notes: Vec<String>,
    /// order facts `a <= b` (both non-NaN) derived by solver-proved lemmas (rt/lemmas/*.smt2)
    pub le: std::collections::HashSet<(Arg, Arg)>,
    pub le_succ: StdMap<Arg, Vec<Arg>>,
    pub relational: bool,
    /// power-of-two scaling normal form (C09 subdivision, C11)
    pub scale_norm: bool,
    pub scale_rewrites: u64,
    pub lemma_uses: StdMap<&'static str, u64>,
    pub lemma_uses_q: RefCell<StdMap<&'static str, u64>>,
}

/// structural monotonicity lemmas that are enabled (each needs its proof in rt/lemmas/)
pub const MONO_ADD: bool = true;
pub const MONO_SUB: bool = true;
pub const MONO_MUL: bool = true;
pub const MONO_DIV: bool = true;

/// An obligation: `direct` is the statement; `via` is an optional sufficient condition that
/// implies it through a named lemma (proved separately by the solver for all binary32 values).
#[derive(Clone, Debug)]
pub struct Ob {
    pub name: String,
    pub direct: crate::bx::Bx,
    pub via: Option<(String, crate::bx::Bx)>,
}

impl Ctx {
    pub fn new() -> Ctx {
        Ctx {
            nodes: vec![],
            val: vec![],
            iv: vec![],
            vset: vec![],
            born: vec![],
            quant: vec![],
            spec_mode: false,
            cons: StdMap::new(),
            vars: vec![],
            names: StdMap::new(),
            witness: StdMap::new(),
            trace: vec![],
            cache: StdMap::new(),
            stats: Stats::default(),
            simplify: true,
            seed: 0,
            internal_error: None,
            outs: vec![],
            obs: vec![],
            notes: vec![],
            le: Default::default(),
            le_succ: StdMap::new(),
            relational: true,
            scale_norm: false,
            scale_rewrites: 0,
            lemma_uses: StdMap::new(),
            lemma_uses_q: RefCell::new(StdMap::new()),
        }
    }
}

thread_local! {
    // ManuallyDrop: no thread-local destructor is registered, so the context is still accessible from the atexit
    // handler that writes the process-mode snapshot
    pub static CTX: RefCell<std::mem::ManuallyDrop<Ctx>> = RefCell::new(std::mem::ManuallyDrop::new(Ctx::new()));
}

static PROC_INIT: std::sync::Once = std::sync::Once::new();

pub fn with<R>(f: impl FnOnce(&mut Ctx) -> R) -> R {
    CTX.with(|c| {
        // process mode (lifted binary as a child): load the driving witness and arrange for the snapshot at exit
        PROC_INIT.call_once(|| crate::procmode::child_init(&mut **c.borrow_mut()));
        f(&mut **c.borrow_mut())
    })
}

/// Start a new path driven by `witness` (input name -> f32 bits).
pub fn reset(witness: StdMap<String, u32>, seed: u64, simplify: bool) {
    with(|c| {
        *c = Ctx::new();
        c.witness = witness;
        c.seed = seed;
        c.simplify = simplify;
        c.scale_norm = SCALE_NORM.load(std::sync::atomic::Ordering::Relaxed);
    })
}

pub static SCALE_NORM: std::sync::atomic::AtomicBool = std::sync::atomic::AtomicBool::new(false);

// ------------------------------------------------------------------ evaluation helpers

pub fn apply(op: Op, a: f32, b: f32) -> f32 {
    match op {
        Op::Add => a + b,
        Op::Sub => a - b,
        Op::Mul => a * b,
        Op::Div => a / b,
        Op::Rem => a % b,
        Op::Min => a.min(b),
        Op::Max => a.max(b),
        Op::Abs => a.abs(),
        Op::Neg => -a,
        Op::Round => a.round(),
        Op::Var => unreachable!(),
    }
}

pub fn apply_cmp(cmp: Cmp, a: f32, b: f32) -> bool {
    match cmp {
        Cmp::Lt => a < b,
        Cmp::Le => a <= b,
        Cmp::Eq => a == b,
    }
}

impl Ctx {
    pub fn value(&self, x: Arg) -> f32 {
        match x {
            Arg::K(b) => f32::from_bits(b),
            Arg::N(i) => self.val[i as usize],
        }
    }
    pub fn ivof(&self, x: Arg) -> Iv {
        match x {
            Arg::K(b) => Iv::point(f32::from_bits(b)),
            Arg::N(i) => self.iv[i as usize],
        }
    }
    pub fn vsof(&self, x: Arg) -> VarSet {
        match x {
            Arg::K(_) => [0; 4],
            Arg::N(i) => self.vset[i as usize],
        }
    }

    pub fn quantof(&self, x: Arg) -> i16 {
        match x {
            Arg::K(b) => {
                let v = f32::from_bits(b);
                if v == 0.0 {
                    i16::MAX
                } else if !v.is_finite() {
                    i16::MIN
                } else {
                    let e = ((b >> 23) & 0xff) as i32;
                    let m = b & 0x7f_ffff;
                    let (e, m) = if e == 0 { (-149, m) } else { (e - 150, m | 0x80_0000) };
                    (e + m.trailing_zeros() as i32) as i16
                }
            }
            Arg::N(i) => self.quant[i as usize],
        }
    }

    pub fn bornof(&self, x: Arg) -> u32 {
        match x {
            Arg::K(_) => 0,
            Arg::N(i) => self.born[i as usize],
        }
    }

    fn push(&mut self, n: Node, v: f32, iv: Iv, vs: VarSet) -> u32 {
        let id = self.nodes.len() as u32;
        let born = if self.spec_mode && n.op != Op::Var { self.bornof(n.a).max(self.bornof(n.b)) } else { self.trace.len() as u32 };
        self.born.push(born);
        let q = match n.op {
            Op::Var => i16::MIN,
            Op::Add | Op::Sub | Op::Min | Op::Max => {
                let (qa, qb) = (self.quantof(n.a), self.quantof(n.b));
                if qa == i16::MIN || qb == i16::MIN {
                    i16::MIN
                } else {
                    qa.min(qb)
                }
            }
            Op::Abs | Op::Neg => self.quantof(n.a),
            // scaling by a power of two shifts the granularity (exact in the normal range)
            Op::Mul => match (n.a, self.quantof(n.b)) {
                (Arg::K(b), qb) if pow2(b).is_some() && qb != i16::MIN && qb != i16::MAX => qb + pow2(b).unwrap() as i16,
                _ => i16::MIN,
            },
            _ => i16::MIN,
        };
        self.quant.push(q);
        self.nodes.push(n);
        self.val.push(v);
        self.iv.push(iv);
        self.vset.push(vs);
        id
    }

    /// Evaluate every node under another assignment (used to check solver models).
    pub fn eval_all(&self, assign: &StdMap<String, u32>) -> Vec<f32> {
        let mut out: Vec<f32> = Vec::with_capacity(self.nodes.len());
        let mut var_i = StdMap::new();
        for v in &self.vars {
            var_i.insert(v.node, v);
        }
        for (i, n) in self.nodes.iter().enumerate() {
            let g = |x: Arg, out: &Vec<f32>| match x {
                Arg::K(b) => f32::from_bits(b),
                Arg::N(j) => out[j as usize],
            };
            let v = match n.op {
                Op::Var => {
                    let vi = var_i[&(i as u32)];
                    f32::from_bits(*assign.get(&vi.name).unwrap_or(&self.val[i].to_bits()))
                }
                op => apply(op, g(n.a, &out), g(n.b, &out)),
            };
            out.push(v);
        }
        out
    }
}

impl Ctx {
    /// Pretty-print a term (depth-limited), for diagnostics and violation reports.
    pub fn show(&self, x: Arg, depth: u32) -> String {
        match x {
            Arg::K(b) => format!("{}", f32::from_bits(b)),
            Arg::N(i) => {
                let n = self.nodes[i as usize];
                if n.op == Op::Var {
                    return self.vars.iter().find(|v| v.node == i).map(|v| v.name.clone()).unwrap_or_default();
                }
                if depth == 0 {
                    return format!("#{}", i);
                }
                let a = self.show(n.a, depth - 1);
                match n.op {
                    Op::Add => format!("({} + {})", a, self.show(n.b, depth - 1)),
                    Op::Sub => format!("({} - {})", a, self.show(n.b, depth - 1)),
                    Op::Mul => format!("({} * {})", a, self.show(n.b, depth - 1)),
                    Op::Div => format!("({} / {})", a, self.show(n.b, depth - 1)),
                    Op::Rem => format!("({} % {})", a, self.show(n.b, depth - 1)),
                    Op::Min => format!("min({}, {})", a, self.show(n.b, depth - 1)),
                    Op::Max => format!("max({}, {})", a, self.show(n.b, depth - 1)),
                    Op::Abs => format!("|{}|", a),
                    Op::Neg => format!("-{}", a),
                    Op::Round => format!("round({})", a),
                    Op::Var => unreachable!(),
                }
            }
        }
    }
}

// ------------------------------------------------------------------ intervals

fn fmin4(p: [f32; 4]) -> f32 {
    p.iter().cloned().fold(f32::INFINITY, f32::min)
}
fn fmax4(p: [f32; 4]) -> f32 {
    p.iter().cloned().fold(f32::NEG_INFINITY, f32::max)
}

/// Interval transfer functions.  Correctly rounded operations are monotone, so applying
/// the machine operation to the end points encloses every rounded result.
pub fn iv_op(op: Op, a: &Iv, b: &Iv) -> Iv {
    match op {
        Op::Abs => {
            if a.nan {
                return Iv { lo: 0.0, hi: f32::INFINITY, nan: true, nz: false };
            }
            let lo = if a.lo <= 0.0 && a.hi >= 0.0 { 0.0 } else { a.lo.abs().min(a.hi.abs()) };
            return Iv { lo, hi: a.lo.abs().max(a.hi.abs()), nan: false, nz: false };
        }
        Op::Neg => {
            return Iv { lo: -a.hi, hi: -a.lo, nan: a.nan, nz: a.lo <= 0.0 && a.hi >= 0.0 };
        }
        Op::Round => {
            if a.nan {
                return Iv::TOP;
            }
            return Iv { lo: a.lo.round(), hi: a.hi.round(), nan: false, nz: a.lo < 0.0 && a.hi > -1.0 || a.nz };
        }
        _ => {}
    }
    if a.nan || b.nan {
        if matches!(op, Op::Min | Op::Max) && !(a.nan && b.nan) {
            // NaN-ignoring: result is the other operand or the min/max
            return Iv { lo: a.lo.min(b.lo), hi: a.hi.max(b.hi), nan: false, nz: true };
        }
        return Iv::TOP;
    }
    let zero_in = |x: &Iv| x.lo <= 0.0 && x.hi >= 0.0;
    let (lo, hi) = match op {
        Op::Add => (a.lo + b.lo, a.hi + b.hi),
        Op::Sub => (a.lo - b.hi, a.hi - b.lo),
        Op::Mul => {
            let p = [a.lo * b.lo, a.lo * b.hi, a.hi * b.lo, a.hi * b.hi];
            if p.iter().any(|x| x.is_nan()) {
                return Iv::TOP;
            }
            (fmin4(p), fmax4(p))
        }
        Op::Div => {
            if zero_in(b) {
                return Iv::TOP;
            }
            let p = [a.lo / b.lo, a.lo / b.hi, a.hi / b.lo, a.hi / b.hi];
            if p.iter().any(|x| x.is_nan()) {
                return Iv::TOP;
            }
            (fmin4(p), fmax4(p))
        }
        Op::Min => (a.lo.min(b.lo), a.hi.min(b.hi)),
        Op::Max => (a.lo.max(b.lo), a.hi.max(b.hi)),
        _ => return Iv::TOP,
    };
    if lo.is_nan() || hi.is_nan() {
        return Iv::TOP;
    }
    // inf - inf or similar inside the range can give NaN
    let nan = match op {
        Op::Add => (a.hi == f32::INFINITY && b.lo == f32::NEG_INFINITY) || (a.lo == f32::NEG_INFINITY && b.hi == f32::INFINITY),
        Op::Sub => (a.hi == f32::INFINITY && b.hi == f32::INFINITY) || (a.lo == f32::NEG_INFINITY && b.lo == f32::NEG_INFINITY),
        Op::Mul => (zero_in(a) && (b.lo.is_infinite() || b.hi.is_infinite())) || (zero_in(b) && (a.lo.is_infinite() || a.hi.is_infinite())),
        Op::Div => (a.lo.is_infinite() || a.hi.is_infinite()) && (b.lo.is_infinite() || b.hi.is_infinite()),
        _ => false,
    };
    // sign of zero: conservative
    let nz = match op {
        Op::Add => a.nz && b.nz,
        Op::Sub => a.nz && zero_in(b),
        Op::Mul | Op::Div => (lo <= 0.0 && hi >= 0.0) && (a.lo < 0.0 || b.lo < 0.0 || a.nz || b.nz),
        Op::Min | Op::Max => a.nz || b.nz,
        _ => true,
    };
    Iv { lo, hi, nan, nz }
}

pub fn iv_intersect(a: &Iv, b: &Iv) -> Iv {
    Iv { lo: a.lo.max(b.lo), hi: a.hi.min(b.hi), nan: a.nan && b.nan, nz: a.nz && b.nz }
}

pub fn next_up(x: f32) -> f32 {
    if x.is_nan() || x == f32::INFINITY {
        return x;
    }
    if x == 0.0 {
        return f32::from_bits(1);
    }
    let b = x.to_bits();
    if x > 0.0 {
        f32::from_bits(b + 1)
    } else {
        f32::from_bits(b - 1)
    }
}
pub fn next_down(x: f32) -> f32 {
    -next_up(-x)
}

/// Decide a comparison from intervals, if it has the same truth value for every value.
pub fn iv_decide(cmp: Cmp, a: &Iv, b: &Iv) -> Option<bool> {
    if a.nan || b.nan {
        return None;
    }
    match cmp {
        Cmp::Lt => {
            if a.hi < b.lo {
                Some(true)
            } else if a.lo >= b.hi {
                Some(false)
            } else {
                None
            }
        }
        Cmp::Le => {
            if a.hi <= b.lo {
                Some(true)
            } else if a.lo > b.hi {
                Some(false)
            } else {
                None
            }
        }
        Cmp::Eq => {
            if a.hi < b.lo || b.hi < a.lo {
                Some(false)
            } else if a.lo == a.hi && b.lo == b.hi && a.lo == b.lo {
                Some(true)
            } else {
                None
            }
        }
    }
}

// ------------------------------------------------------------------ order facts (lemma instances)

impl Ctx {
    pub fn add_le(&mut self, a: Arg, b: Arg, lemma: &'static str) {
        if a == b {
            return;
        }
        if self.le.insert((a, b)) {
            self.le_succ.entry(a).or_default().push(b);
            *self.lemma_uses.entry(lemma).or_insert(0) += 1;
        }
    }
    /// `a <= b` for every input of the path?  Decided from intervals, recorded facts, transitivity
    /// and the structural monotonicity lemmas (addmono, submono, mulmono, divmono: three-variable
    /// statements, chained), each proved by the solver for all binary32 values (rt/lemmas/).
    pub fn known_le(&self, a: Arg, b: Arg) -> bool {
        let mut memo = StdMap::new();
        self.le_rec(a, b, 5, &mut memo)
    }

    fn used(&self, lemma: &'static str) {
        *self.lemma_uses_q.borrow_mut().entry(lemma).or_insert(0) += 1;
    }

    fn le_rec(&self, a: Arg, b: Arg, depth: u32, memo: &mut StdMap<(Arg, Arg), bool>) -> bool {
        let (ia, ib) = (self.ivof(a), self.ivof(b));
        if ia.nan || ib.nan {
            return false;
        }
        if a == b || ia.hi <= ib.lo {
            return true;
        }
        if ia.lo > ib.hi {
            return false;
        }
        if let Some(r) = memo.get(&(a, b)) {
            return *r;
        }
        memo.insert((a, b), false);
        let mut r = self.le.contains(&(a, b));
        if !r && depth > 0 {
            let na = if let Arg::N(i) = a { Some(self.nodes[i as usize]) } else { None };
            let nb = if let Arg::N(i) = b { Some(self.nodes[i as usize]) } else { None };
            // b = min(c, d): a <= c and a <= d;  b = max(c, d): a <= c or a <= d
            if let Some(n) = nb {
                match n.op {
                    Op::Min => r = self.le_rec(a, n.a, depth - 1, memo) && self.le_rec(a, n.b, depth - 1, memo),
                    Op::Max => r = self.le_rec(a, n.a, depth - 1, memo) || self.le_rec(a, n.b, depth - 1, memo),
                    _ => {}
                }
            }
            if !r {
                if let Some(n) = na {
                    match n.op {
                        Op::Max => r = self.le_rec(n.a, b, depth - 1, memo) && self.le_rec(n.b, b, depth - 1, memo),
                        Op::Min => r = self.le_rec(n.a, b, depth - 1, memo) || self.le_rec(n.b, b, depth - 1, memo),
                        _ => {}
                    }
                }
            }
            // same operation on both sides: monotonicity of the correctly rounded operation
            if !r {
                if let (Some(x), Some(y)) = (na, nb) {
                    let fin = |t: Arg| self.ivof(t).finite();
                    let nonneg = |t: Arg| {
                        let i = self.ivof(t);
                        !i.nan && i.lo >= 0.0
                    };
                    let pos = |t: Arg| {
                        let i = self.ivof(t);
                        !i.nan && i.lo > 0.0
                    };
                    if x.op == y.op && fin(x.a) && fin(x.b) && fin(y.a) && fin(y.b) {
                        match x.op {
                            Op::Add if MONO_ADD => {
                                r = (self.le_rec(x.a, y.a, depth - 1, memo) && self.le_rec(x.b, y.b, depth - 1, memo))
                                    || (self.le_rec(x.a, y.b, depth - 1, memo) && self.le_rec(x.b, y.a, depth - 1, memo));
                                if r {
                                    self.used("addmono");
                                }
                            }
                            Op::Sub if MONO_SUB => {
                                r = self.le_rec(x.a, y.a, depth - 1, memo) && self.le_rec(y.b, x.b, depth - 1, memo);
                                if r {
                                    self.used("submono");
                                }
                                // lemma expmono: p <= q  =>  p - min(u, p) <= q - min(u, q)
                                if !r {
                                    if let (Arg::N(mx), Arg::N(my)) = (x.b, y.b) {
                                        let (nx, ny) = (self.nodes[mx as usize], self.nodes[my as usize]);
                                        if nx.op == Op::Min && ny.op == Op::Min {
                                            let other = |n: &Node, p: Arg| if n.a == p { Some(n.b) } else if n.b == p { Some(n.a) } else { None };
                                            if let (Some(ux), Some(uy)) = (other(&nx, x.a), other(&ny, y.a)) {
                                                if ux == uy && self.le_rec(x.a, y.a, depth - 1, memo) {
                                                    r = true;
                                                    self.used("expmono");
                                                }
                                            }
                                        }
                                    }
                                }
                            }
                            Op::Mul if MONO_MUL && nonneg(x.a) && nonneg(x.b) && nonneg(y.a) && nonneg(y.b) => {
                                r = (self.le_rec(x.a, y.a, depth - 1, memo) && self.le_rec(x.b, y.b, depth - 1, memo))
                                    || (self.le_rec(x.a, y.b, depth - 1, memo) && self.le_rec(x.b, y.a, depth - 1, memo));
                                if r {
                                    self.used("mulmono");
                                }
                            }
                            Op::Div if MONO_DIV && nonneg(x.a) && nonneg(y.a) && pos(x.b) && pos(y.b) => {
                                r = self.le_rec(x.a, y.a, depth - 1, memo) && self.le_rec(y.b, x.b, depth - 1, memo);
                                if r {
                                    self.used("divmono");
                                }
                            }
                            _ => {}
                        }
                    }
                }
            }
            // transitivity through recorded facts
            if !r {
                if let Some(v) = self.le_succ.get(&a) {
                    for &z in v {
                        if self.le_rec(z, b, depth - 1, memo) {
                            r = true;
                            break;
                        }
                    }
                }
            }
        }
        memo.insert((a, b), r);
        r
    }

    /// Facts and interval tightening for a freshly built node `n = op(a, b)`; every rule is an
    /// instance of a lemma in rt/lemmas/ that the solver proves for all binary32 values.
    fn relate(&mut self, n: u32, op: Op, a: Arg, b: Arg) {
        if !self.relational {
            return;
        }
        let (ia, ib) = (self.ivof(a), self.ivof(b));
        if ia.nan || ib.nan || !ia.finite() || !ib.finite() {
            return;
        }
        let me = Arg::N(n);
        match op {
            Op::Min => {
                self.add_le(me, a, "min");
                self.add_le(me, b, "min");
            }
            Op::Max => {
                self.add_le(a, me, "max");
                self.add_le(b, me, "max");
            }
            Op::Sub => {
                if self.known_le(b, a) {
                    // lemma sub: b <= a  =>  a - b >= 0
                    let iv = &mut self.iv[n as usize];
                    if iv.lo < 0.0 {
                        iv.lo = 0.0;
                    }
                    iv.nz = false;
                    *self.lemma_uses.entry("sub").or_insert(0) += 1;
                }
                if ib.lo >= 0.0 {
                    self.add_le(me, a, "sub2");
                }
            }
            Op::Add => {
                if ib.lo >= 0.0 {
                    self.add_le(a, me, "add");
                }
                if ia.lo >= 0.0 {
                    self.add_le(b, me, "add");
                }
            }
            Op::Div => {
                // lemma fmatch: 1e-30 <= x <= 1e30  =>  0.5 <= ((x + 1/x) - 1) / (x + 1/x) <= 1
                if let (Arg::N(na), Arg::N(nb)) = (a, b) {
                    let (sa, sb) = (self.nodes[na as usize], self.nodes[nb as usize]);
                    if sa.op == Op::Sub && sa.a == b && is_k(sa.b, 1.0) && sb.op == Op::Add {
                        for (x, d) in [(sb.a, sb.b), (sb.b, sb.a)] {
                            if let Arg::N(nd) = d {
                                let sd = self.nodes[nd as usize];
                                let ix = self.ivof(x);
                                if sd.op == Op::Div && is_k(sd.a, 1.0) && sd.b == x && !ix.nan && ix.lo >= 1e-30 && ix.hi <= 1e30 {
                                    let iv = &mut self.iv[n as usize];
                                    iv.lo = iv.lo.max(0.5);
                                    iv.hi = iv.hi.min(1.0);
                                    iv.nan = false;
                                    iv.nz = false;
                                    *self.lemma_uses.entry("fmatch").or_insert(0) += 1;
                                    break;
                                }
                            }
                        }
                    }
                }
            }
            Op::Mul => {
                if ia.lo >= 0.0 && ia.hi <= 1.0 && ib.lo >= 0.0 {
                    self.add_le(me, b, "mul");
                }
                if ib.lo >= 0.0 && ib.hi <= 1.0 && ia.lo >= 0.0 {
                    self.add_le(me, a, "mul");
                }
            }
            _ => {}
        }
    }
}

// ------------------------------------------------------------------ node construction

fn commutative(op: Op) -> bool {
    matches!(op, Op::Add | Op::Mul | Op::Min | Op::Max)
}

fn is_k(x: Arg, v: f32) -> bool {
    matches!(x, Arg::K(b) if b == v.to_bits())
}

/// Exact rewrite rules (each is re-proved by the solver at setup: `verif setup` -> rules.smt2).
/// Returns Some(result) when `op(a, b)` equals an operand or a constant for *all* values the
/// operands can take (given their intervals).
fn simplify(c: &Ctx, op: Op, a: Arg, b: Arg) -> Option<Arg> {
    let ia = c.ivof(a);
    let ib = c.ivof(b);
    match op {
        Op::Mul => {
            if is_k(a, 1.0) {
                return Some(b);
            }
            if is_k(b, 1.0) {
                return Some(a);
            }
            // (+0) * x = +0 for finite x >= +0
            if is_k(a, 0.0) && ib.finite() && ib.lo >= 0.0 && !ib.nz {
                return Some(Arg::K(0));
            }
            if is_k(b, 0.0) && ia.finite() && ia.lo >= 0.0 && !ia.nz {
                return Some(Arg::K(0));
            }
        }
        Op::Div => {
            if is_k(b, 1.0) {
                return Some(a);
            }
            // x / x = 1 for finite non-zero x
            if a == b && ia.finite() && (ia.lo > 0.0 || ia.hi < 0.0) {
                return Some(Arg::K(1.0f32.to_bits()));
            }
            // (+0) / x = +0 for finite x > 0
            if is_k(a, 0.0) && ib.finite() && ib.lo > 0.0 {
                return Some(Arg::K(0));
            }
        }
        Op::Add => {
            // (-0) + x = x for every x
            if is_k(a, -0.0) {
                return Some(b);
            }
            if is_k(b, -0.0) {
                return Some(a);
            }
            // (+0) + x = x unless x is -0
            if is_k(a, 0.0) && !ib.nz && !ib.nan {
                return Some(b);
            }
            if is_k(b, 0.0) && !ia.nz && !ia.nan {
                return Some(a);
            }
            // x + (0 * y) = x for finite y and x that is neither NaN nor -0  (rule addzero)
            for (x, z, ix) in [(a, b, &ia), (b, a, &ib)] {
                if let Arg::N(nz) = z {
                    let n = c.nodes[nz as usize];
                    if n.op == Op::Mul && (is_k(n.a, 0.0) || is_k(n.b, 0.0)) {
                        let y = if is_k(n.a, 0.0) { n.b } else { n.a };
                        if c.ivof(y).finite() && !ix.nan && !ix.nz {
                            return Some(x);
                        }
                    }
                }
            }
        }
        Op::Sub => {
            // x - (+0) = x for every x
            if is_k(b, 0.0) {
                return Some(a);
            }
        }
        Op::Min | Op::Max => {
            if a == b {
                return Some(a);
            }
            // decided by intervals (no NaN, no zero-sign ambiguity)
            if !ia.nan && !ib.nan {
                // x <= y everywhere; equal values have equal bits unless they are zeros of different sign
                let strictly = |x: &Iv, y: &Iv| x.hi < y.lo || (x.hi <= y.lo && (x.hi != 0.0 || (!x.nz && !y.nz)));
                if op == Op::Min {
                    if strictly(&ia, &ib) {
                        return Some(a);
                    }
                    if strictly(&ib, &ia) {
                        return Some(b);
                    }
                } else {
                    if strictly(&ia, &ib) {
                        return Some(b);
                    }
                    if strictly(&ib, &ia) {
                        return Some(a);
                    }
                }
            }
        }
        _ => {}
    }
    None
}

/// `c` is an exact positive power of two 2^j with j != 0
fn pow2(bits: u32) -> Option<i32> {
    if bits & 0x807f_ffff == 0 {
        let e = (bits >> 23) as i32;
        if e != 0 && e != 255 && e != 127 {
            return Some(e - 127);
        }
    }
    None
}

fn pow2_const(j: i32) -> Arg {
    Arg::K(((j + 127) as u32) << 23)
}

impl Ctx {
    /// (core, j): the value is 2^j * core.  Scaled nodes are kept as `Mul(K(2^j), core)`.
    fn split_scale(&self, x: Arg) -> (Arg, i32) {
        match x {
            Arg::K(b) => match pow2(b) {
                Some(j) => (Arg::K(1.0f32.to_bits()), j),
                None => (x, 0),
            },
            Arg::N(i) => {
                let n = self.nodes[i as usize];
                if n.op == Op::Mul {
                    if let Arg::K(b) = n.a {
                        if let Some(j) = pow2(b) {
                            return (n.b, j);
                        }
                    }
                }
                (x, 0)
            }
        }
    }

    fn make_scaled(&mut self, core: Arg, j: i32) -> Arg {
        if j == 0 {
            return core;
        }
        if let Arg::K(b) = core {
            let v = f32::from_bits(b) * f32::from_bits(match pow2_const(j) {
                Arg::K(x) => x,
                _ => unreachable!(),
            });
            return Arg::K(v.to_bits());
        }
        self.scale_rewrites += 1;
        self.raw_node(Op::Mul, pow2_const(j), core)
    }

    /// Scaling normal form (only when `scale_norm` is on; DESIGN.md 2.4 L1): a power-of-two factor
    /// commutes with +, -, min, max, *, /, abs, neg (exact unless an intermediate value leaves the
    /// normal range, which is not discharged by the solver but checked on every witness by the
    /// bit-for-bit comparison with the untouched build).
    fn scale_rule(&mut self, op: Op, a: Arg, b: Arg) -> Option<Arg> {
        let (ca, ja) = self.split_scale(a);
        let (cb, jb) = self.split_scale(b);
        let zero = |x: Arg| matches!(x, Arg::K(b) if b & 0x7fff_ffff == 0);
        match op {
            Op::Add | Op::Sub | Op::Min | Op::Max => {
                if op == Op::Add && a == b {
                    // x + x = 2 x
                    return Some(self.make_scaled(ca, ja + 1));
                }
                let j = if zero(a) {
                    jb
                } else if zero(b) {
                    ja
                } else if ja == jb {
                    ja
                } else {
                    return None;
                };
                if j == 0 {
                    return None;
                }
                let core = self.mk_node(op, ca, cb);
                Some(self.make_scaled(core, j))
            }
            Op::Mul => {
                if ja == 0 && jb == 0 {
                    return None;
                }
                // the canonical scaled node itself
                if matches!(a, Arg::K(x) if pow2(x).is_some()) && jb == 0 {
                    return None;
                }
                let core = self.mk_node(Op::Mul, ca, cb);
                Some(self.make_scaled(core, ja + jb))
            }
            Op::Div => {
                if ja == 0 && jb == 0 {
                    return None;
                }
                let core = self.mk_node(Op::Div, ca, cb);
                Some(self.make_scaled(core, ja - jb))
            }
            _ => None,
        }
    }

    fn raw_node(&mut self, op: Op, ka: Arg, kb: Arg) -> Arg {
        let key = (op, ka, kb);
        let iv = iv_op(op, &self.ivof(ka), &self.ivof(kb));
        if let Some(&i) = self.cons.get(&key) {
            let old = self.iv[i as usize];
            self.iv[i as usize] = iv_intersect(&old, &iv);
            return Arg::N(i);
        }
        let v = apply(op, self.value(ka), self.value(kb));
        let vs = vs_or(&self.vsof(ka), &self.vsof(kb));
        let id = self.push(Node { op, a: ka, b: kb }, v, iv, vs);
        self.cons.insert(key, id);
        self.relate(id, op, ka, kb);
        Arg::N(id)
    }

    pub fn mk_node(&mut self, op: Op, a: Arg, b: Arg) -> Arg {
        if let (Arg::K(x), Arg::K(y)) = (a, b) {
            return Arg::K(apply(op, f32::from_bits(x), f32::from_bits(y)).to_bits());
        }
        let (mut ka, mut kb) = (a, b);
        if commutative(op) && kb < ka {
            std::mem::swap(&mut ka, &mut kb);
        }
        if self.simplify {
            if let Some(r) = simplify(self, op, ka, kb) {
                self.stats.simplified += 1;
                return r;
            }
        }
        if self.scale_norm {
            if let Some(r) = self.scale_rule(op, ka, kb) {
                return r;
            }
        }
        self.raw_node(op, ka, kb)
    }
}

pub fn mk(op: Op, a: Sf, b: Sf) -> Sf {
    if let (Sf::C(x), Sf::C(y)) = (a, b) {
        return Sf::C(apply(op, x, y));
    }
    with(|c| c.mk_node(op, Arg::of(a), Arg::of(b)).sf())
}

pub fn mk1(op: Op, a: Sf) -> Sf {
    if let Sf::C(x) = a {
        return Sf::C(apply(op, x, 0.0));
    }
    with(|c| {
        let ka = Arg::of(a);
        if c.scale_norm && matches!(op, Op::Abs | Op::Neg) {
            let (core, j) = c.split_scale(ka);
            if j != 0 {
                let inner = c.mk1_node(op, core);
                return c.make_scaled(inner, j).sf();
            }
        }
        c.mk1_node(op, ka).sf()
    })
}

impl Ctx {
    fn mk1_node(&mut self, op: Op, ka: Arg) -> Arg {
        if let Arg::K(x) = ka {
            return Arg::K(apply(op, f32::from_bits(x), 0.0).to_bits());
        }
        let ia = self.ivof(ka);
        if self.simplify && op == Op::Abs && !ia.nan && ia.lo >= 0.0 && !ia.nz {
            self.stats.simplified += 1;
            return ka;
        }
        let key = (op, ka, Arg::K(0));
        let iv = iv_op(op, &ia, &ia);
        if let Some(&i) = self.cons.get(&key) {
            let old = self.iv[i as usize];
            self.iv[i as usize] = iv_intersect(&old, &iv);
            return Arg::N(i);
        }
        let v = apply(op, self.value(ka), 0.0);
        let vs = self.vsof(ka);
        let id = self.push(Node { op, a: ka, b: Arg::K(0) }, v, iv, vs);
        self.cons.insert(key, id);
        Arg::N(id)
    }

    /// Comparison atoms in scaling normal form: a common positive power-of-two factor is dropped.
    pub fn norm_atom(&self, cmp: Cmp, a: Arg, b: Arg) -> (Cmp, Arg, Arg) {
        if !self.scale_norm {
            return (cmp, a, b);
        }
        let (ca, ja) = self.split_scale(a);
        let (cb, jb) = self.split_scale(b);
        let zero = |x: Arg| matches!(x, Arg::K(b) if b & 0x7fff_ffff == 0);
        let is_k = |x: Arg| matches!(x, Arg::K(_));
        if zero(a) && jb != 0 {
            return (cmp, a, cb);
        }
        if zero(b) && ja != 0 {
            return (cmp, ca, b);
        }
        if ja == jb && ja != 0 && !is_k(a) && !is_k(b) {
            return (cmp, ca, cb);
        }
        // scaled node against a non-zero constant: move the factor to the constant when that is exact
        if let (Arg::K(kb_), true, false) = (b, ja != 0, is_k(a)) {
            let c = f32::from_bits(kb_);
            let s = f32::from_bits(((127 - ja) as u32) << 23);
            let c2 = c * s;
            if c2.is_normal() && c2 / s == c {
                return (cmp, ca, Arg::K(c2.to_bits()));
            }
        }
        if let (Arg::K(ka_), true, false) = (a, jb != 0, is_k(b)) {
            let c = f32::from_bits(ka_);
            let s = f32::from_bits(((127 - jb) as u32) << 23);
            let c2 = c * s;
            if c2.is_normal() && c2 / s == c {
                return (cmp, Arg::K(c2.to_bits()), cb);
            }
        }
        (cmp, a, b)
    }
}

// ------------------------------------------------------------------ inputs

fn splitmix(x: &mut u64) -> u64 {
    *x = x.wrapping_add(0x9E3779B97F4A7C15);
    let mut z = *x;
    z = (z ^ (z >> 30)).wrapping_mul(0xBF58476D1CE4E5B9);
    z = (z ^ (z >> 27)).wrapping_mul(0x94D049BB133111EB);
    z ^ (z >> 31)
}

fn name_hash(name: &str, seed: u64) -> u64 {
    let mut h = seed ^ 0xcbf29ce484222325;
    for b in name.bytes() {
        h ^= b as u64;
        h = h.wrapping_mul(0x100000001b3);
    }
    let mut s = h;
    splitmix(&mut s)
}

/// Default witness value for an input that the driving witness does not mention.
pub fn default_value(name: &str, dom: Dom, seed: u64) -> f32 {
    let r = name_hash(name, seed);
    let u = (r >> 11) as f64 / (1u64 << 53) as f64; // [0,1)
    match dom {
        Dom::Energy | Dom::EnergyPos | Dom::EnergyLazy | Dom::EnergySigned => {
            // generic non-zero energy: log-uniform in [1, 1000], two decimals
            let v = (10f64).powf(3.0 * u);
            ((v * 100.0).round() / 100.0) as f32
        }
        Dom::EnergyR(lo, hi) => {
            let v = (10f64).powf(3.0 * u);
            (((v * 100.0).round() / 100.0) as f32).max(lo).min(hi)
        }
        Dom::Range(lo, hi) => {
            let v = lo as f64 + (hi as f64 - lo as f64) * (0.25 + 0.5 * u);
            v as f32
        }
        Dom::AnyBits => ((1.0 + 99.0 * u) as f32 * 100.0).round() / 100.0,
    }
}

/// Create (or look up) the input `name`.  For the energy domains the zero / sign regime is a
/// recorded decision, and a zero input becomes the concrete constant +0.0.
pub fn input(name: &str, dom: Dom) -> Sf {
    if let Some(s) = with(|c| c.names.get(name).copied()) {
        return s;
    }
    let s = with(|c| {
        let bits = match c.witness.get(name) {
            Some(b) => *b,
            None => {
                let v = default_value(name, dom, c.seed).to_bits();
                c.witness.insert(name.to_string(), v);
                v
            }
        };
        let v = f32::from_bits(bits);
        let idx = c.vars.len();
        let (lo, hi, zero_ok, iv) = match dom {
            Dom::Energy | Dom::EnergyLazy => (E_MIN, E_MAX, true, Iv { lo: 0.0, hi: E_MAX, nan: false, nz: false }),
            Dom::EnergyR(lo, hi) => (lo, hi, true, Iv { lo: 0.0, hi, nan: false, nz: false }),
            Dom::EnergyPos => (E_MIN, E_MAX, false, Iv { lo: E_MIN, hi: E_MAX, nan: false, nz: false }),
            Dom::EnergySigned => (-E_MAX, E_MAX, true, Iv { lo: -E_MAX, hi: E_MAX, nan: false, nz: false }),
            Dom::Range(lo, hi) => (lo, hi, false, Iv { lo, hi, nan: false, nz: lo <= 0.0 && hi >= 0.0 && lo < 0.0 }),
            Dom::AnyBits => (f32::NEG_INFINITY, f32::INFINITY, false, Iv::TOP),
        };
        let id = c.push(Node { op: Op::Var, a: Arg::K(0), b: Arg::K(0) }, v, iv, vs_bit(idx));
        c.vars.push(VarInfo { node: id, name: name.to_string(), dom, lo, hi, zero_ok });
        // a float of magnitude >= 2^-7 (or zero) is a multiple of 2^-30
        if matches!(dom, Dom::Energy | Dom::EnergyPos | Dom::EnergySigned | Dom::EnergyLazy | Dom::EnergyR(_, _)) && lo.abs() >= 0.0078125 || (dom == Dom::EnergySigned) {
            c.quant[id as usize] = -30;
        }
        let node = Arg::N(id);
        let vs = vs_bit(idx);
        match dom {
            Dom::Energy | Dom::EnergyR(_, _) => {
                let is_zero = v == 0.0;
                c.trace.push(Decision { cmp: Cmp::Eq, a: node, b: Arg::K(0), side: is_zero, kind: Kind::Regime, vars: vs });
                if is_zero {
                    c.iv[id as usize] = Iv::point(0.0);
                    Sf::C(0.0)
                } else {
                    c.iv[id as usize].lo = lo;
                    c.vars[idx].zero_ok = false;
                    Sf::S(id)
                }
            }
            Dom::EnergySigned => {
                let is_zero = v == 0.0;
                c.trace.push(Decision { cmp: Cmp::Eq, a: node, b: Arg::K(0), side: is_zero, kind: Kind::Regime, vars: vs });
                if is_zero {
                    c.iv[id as usize] = Iv::point(0.0);
                    Sf::C(0.0)
                } else {
                    let neg = v < 0.0;
                    c.trace.push(Decision { cmp: Cmp::Lt, a: node, b: Arg::K(0), side: neg, kind: Kind::Regime, vars: vs });
                    c.vars[idx].zero_ok = false;
                    if neg {
                        c.iv[id as usize].hi = -E_MIN;
                        c.vars[idx].hi = -E_MIN;
                    } else {
                        c.iv[id as usize].lo = E_MIN;
                        c.vars[idx].lo = E_MIN;
                    }
                    Sf::S(id)
                }
            }
            _ => Sf::S(id),
        }
    });
    with(|c| c.names.insert(name.to_string(), s));
    s
}

/// Switch between code-under-test mode and specification mode (see `Ctx::born`).
pub fn spec_mode(on: bool) {
    with(|c| c.spec_mode = on)
}

/// Placeholder lookup used by `FromStr for Sf`: `?name` (declared input) or `?_id` (node); `#`, `,` and `:` are delimiters of the file formats.
pub fn placeholder(tok: &str) -> Option<Sf> {
    if tok.is_empty() {
        return None;
    }
    if let Some(id) = tok.strip_prefix('_') {
        let id: u32 = id.parse().ok()?;
        return with(|c| if (id as usize) < c.nodes.len() { Some(Sf::S(id)) } else { None });
    }
    // `?name` or `?name:dom`
    let (name, dom) = match tok.split_once(':') {
        Some((n, d)) => (n, Some(d)),
        None => (tok, None),
    };
    if let Some(s) = with(|c| c.names.get(name).copied()) {
        return Some(s);
    }
    let dom = match dom {
        None | Some("e") => Dom::Energy,
        Some("p") => Dom::EnergyPos,
        Some("s") => Dom::EnergySigned,
        Some("f") => Dom::Range(0.0, 10.0),
        Some("u") => Dom::Range(0.0, 1.0),
        Some("a") => Dom::Range(0.001, 1.0e6),
        Some("w") => Dom::Range(-10.0, 1.0e7),
        Some("x") => Dom::AnyBits,
        _ => return None,
    };
    Some(input(name, dom))
}

// ------------------------------------------------------------------ decisions

fn refine(c: &mut Ctx, cmp: Cmp, a: Arg, b: Arg, side: bool) {
    let ia = c.ivof(a);
    let ib = c.ivof(b);
    let (mut na, mut nb) = (ia, ib);
    match (cmp, side) {
        (Cmp::Lt, true) => {
            na.nan = false;
            nb.nan = false;
            na.hi = na.hi.min(next_down(ib.hi));
            nb.lo = nb.lo.max(next_up(ia.lo));
        }
        (Cmp::Le, true) => {
            na.nan = false;
            nb.nan = false;
            na.hi = na.hi.min(ib.hi);
            nb.lo = nb.lo.max(ia.lo);
        }
        (Cmp::Eq, true) => {
            na.nan = false;
            nb.nan = false;
            na.lo = na.lo.max(ib.lo);
            na.hi = na.hi.min(ib.hi);
            nb.lo = nb.lo.max(ia.lo);
            nb.hi = nb.hi.min(ia.hi);
        }
        (Cmp::Lt, false) if !ia.nan && !ib.nan => {
            // a >= b
            na.lo = na.lo.max(ib.lo);
            nb.hi = nb.hi.min(ia.hi);
        }
        (Cmp::Le, false) if !ia.nan && !ib.nan => {
            // a > b
            na.lo = na.lo.max(next_up(ib.lo));
            nb.hi = nb.hi.min(next_down(ia.hi));
        }
        (Cmp::Eq, false) if !ia.nan && !ib.nan => {
            // a != b: an end point equal to a point value on the other side is excluded
            if ib.lo == ib.hi {
                if ia.lo == ib.lo {
                    na.lo = next_up(ia.lo);
                }
                if ia.hi == ib.lo {
                    na.hi = next_down(ia.hi);
                }
            }
            if ia.lo == ia.hi {
                if ib.lo == ia.lo {
                    nb.lo = next_up(ib.lo);
                }
                if ib.hi == ia.lo {
                    nb.hi = next_down(ib.hi);
                }
            }
        }
        _ => {}
    }
    // a non-zero value with granularity q has magnitude >= q
    for (x, iv) in [(a, &mut na), (b, &mut nb)] {
        let q = c.quantof(x);
        if q != i16::MIN && q != i16::MAX && q > -120 {
            let g = (2.0f32).powi(q as i32);
            if iv.lo > 0.0 && iv.lo < g {
                iv.lo = g;
            }
            if iv.hi < 0.0 && iv.hi > -g {
                iv.hi = -g;
            }
        }
    }
    // snap refined input intervals to their domain hole (0, 0.01)
    let snap = |c: &Ctx, x: Arg, mut iv: Iv| -> Iv {
        if let Arg::N(i) = x {
            if c.nodes[i as usize].op == Op::Var {
                if let Some(v) = c.vars.iter().find(|v| v.node == i) {
                    if matches!(v.dom, Dom::Energy | Dom::EnergyLazy | Dom::EnergySigned | Dom::EnergyPos) {
                        if iv.lo > 0.0 && iv.lo < E_MIN {
                            iv.lo = E_MIN;
                        }
                        if iv.hi < 0.0 && iv.hi > -E_MIN {
                            iv.hi = -E_MIN;
                        }
                        if iv.hi < E_MIN && iv.hi > 0.0 {
                            iv.hi = 0.0;
                        }
                    }
                }
            }
        }
        iv
    };
    if let Arg::N(i) = a {
        let s = snap(c, a, na);
        if s.lo <= s.hi {
            c.iv[i as usize] = s;
        }
    }
    if let Arg::N(i) = b {
        let s = snap(c, b, nb);
        if s.lo <= s.hi {
            c.iv[i as usize] = s;
        }
    }
}

/// The comparison executed by lifted code: returns the side taken by the current witness and
/// records it in the path condition unless it is decided for every input of the path.
pub fn decide(cmp: Cmp, a: Sf, b: Sf) -> bool {
    if let (Sf::C(x), Sf::C(y)) = (a, b) {
        return apply_cmp(cmp, x, y);
    }
    with(|c| {
        let (cmp, ka, kb) = c.norm_atom(cmp, Arg::of(a), Arg::of(b));
        if let (Arg::K(x), Arg::K(y)) = (ka, kb) {
            return apply_cmp(cmp, f32::from_bits(x), f32::from_bits(y));
        }
        let key = (cmp, ka, kb);
        if let Some(&d) = c.cache.get(&key) {
            c.stats.decided_cache += 1;
            return d;
        }
        let (va, vb) = (c.value(ka), c.value(kb));
        let w = apply_cmp(cmp, va, vb);
        let (ia, ib) = (c.ivof(ka), c.ivof(kb));
        let mut forced = iv_decide(cmp, &ia, &ib);
        if forced.is_none() && ka == kb && !ia.nan {
            forced = Some(cmp != Cmp::Lt);
        }
        if forced.is_none() && c.relational {
            match cmp {
                Cmp::Le if c.known_le(ka, kb) => forced = Some(true),
                Cmp::Lt if c.known_le(kb, ka) => forced = Some(false),
                _ => {}
            }
        }
        // consequences of earlier decisions on the same pair
        if forced.is_none() {
            let lt_ab = c.cache.get(&(Cmp::Lt, ka, kb)).copied();
            let lt_ba = c.cache.get(&(Cmp::Lt, kb, ka)).copied();
            let le_ab = c.cache.get(&(Cmp::Le, ka, kb)).copied();
            let le_ba = c.cache.get(&(Cmp::Le, kb, ka)).copied();
            let eq = c.cache.get(&(Cmp::Eq, ka, kb)).copied().or(c.cache.get(&(Cmp::Eq, kb, ka)).copied());
            forced = match cmp {
                Cmp::Lt => {
                    if lt_ba == Some(true) || le_ba == Some(true) || eq == Some(true) || le_ab == Some(false) {
                        Some(false)
                    } else if le_ab == Some(true) && eq == Some(false) {
                        Some(true)
                    } else {
                        None
                    }
                }
                Cmp::Le => {
                    if lt_ab == Some(true) || eq == Some(true) {
                        Some(true)
                    } else if lt_ba == Some(true) {
                        Some(false)
                    } else {
                        None
                    }
                }
                Cmp::Eq => {
                    if lt_ab == Some(true) || lt_ba == Some(true) || le_ab == Some(false) || le_ba == Some(false) {
                        Some(false)
                    } else if le_ab == Some(true) && le_ba == Some(true) {
                        Some(true)
                    } else {
                        None
                    }
                }
            };
        }
        match forced {
            Some(d) => {
                if d != w {
                    c.internal_error = Some(format!(
                        "interval/cache decision {:?}({:?},{:?})={} disagrees with witness ({} vs {})",
                        cmp, ka, kb, d, va, vb
                    ));
                }
                c.stats.decided_interval += 1;
                c.cache.insert(key, d);
                d
            }
            None => {
                c.stats.decided_witness += 1;
                let vars = vs_or(&c.vsof(ka), &c.vsof(kb));
                c.trace.push(Decision { cmp, a: ka, b: kb, side: w, kind: Kind::Branch, vars });
                c.cache.insert(key, w);
                refine(c, cmp, ka, kb, w);
                let nonan = !ia.nan && !ib.nan;
                match (cmp, w) {
                    (Cmp::Le, true) | (Cmp::Lt, true) => c.add_le(ka, kb, "decision"),
                    (Cmp::Le, false) | (Cmp::Lt, false) if nonan => c.add_le(kb, ka, "decision"),
                    (Cmp::Eq, true) => {
                        c.add_le(ka, kb, "decision");
                        c.add_le(kb, ka, "decision");
                    }
                    _ => {}
                }
                w
            }
        }
    })
}
