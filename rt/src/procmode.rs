//! Process mode (DESIGN.md 2.1): the lifted `cteepbd` *binary* runs as a child process on command-line and
//! metadata numbers given as placeholders (`--kexp '?k:w'`, `#META CTE_AREAREF: ?am:w`).  The child is driven by
//! the witness in $VERIF_PROC_WITNESS and dumps its expression DAG, inputs, decisions and witness to
//! $VERIF_PROC_OUT from an atexit handler (so `process::exit` in the middle of `main` loses nothing); the parent
//! installs that snapshot as its own context, parses the program's output (numbers print as `?_id`) and states
//! the obligations over the child's nodes.

use crate::dag::{self, Arg, Cmp, Ctx, Decision, Dom, Iv, Kind, Node, Op, VarInfo};
use serde::{Deserialize, Serialize};
use std::collections::HashMap as StdMap;

#[derive(Serialize, Deserialize)]
struct SVar {
    node: u32,
    name: String,
    dom: (u8, u32, u32),
    lo: u32,
    hi: u32,
    zero_ok: bool,
}

#[derive(Serialize, Deserialize)]
struct SDec {
    cmp: u8,
    a: (u8, u32),
    b: (u8, u32),
    side: bool,
    regime: bool,
    vars: [u64; 4],
}

#[derive(Serialize, Deserialize, Default)]
pub struct Snapshot {
    nodes: Vec<(u8, (u8, u32), (u8, u32))>,
    vals: Vec<u32>,
    born: Vec<u32>,
    vars: Vec<SVar>,
    names: Vec<(String, (u8, u32))>,
    trace: Vec<SDec>,
    witness: Vec<(String, u32)>,
    internal_error: Option<String>,
}

fn op_code(o: Op) -> u8 {
    match o {
        Op::Var => 0,
        Op::Add => 1,
        Op::Sub => 2,
        Op::Mul => 3,
        Op::Div => 4,
        Op::Rem => 5,
        Op::Min => 6,
        Op::Max => 7,
        Op::Abs => 8,
        Op::Neg => 9,
        Op::Round => 10,
    }
}
fn op_of(c: u8) -> Op {
    [Op::Var, Op::Add, Op::Sub, Op::Mul, Op::Div, Op::Rem, Op::Min, Op::Max, Op::Abs, Op::Neg, Op::Round][c as usize]
}
fn arg_code(a: Arg) -> (u8, u32) {
    match a {
        Arg::K(b) => (0, b),
        Arg::N(i) => (1, i),
    }
}
fn arg_of(c: (u8, u32)) -> Arg {
    if c.0 == 0 {
        Arg::K(c.1)
    } else {
        Arg::N(c.1)
    }
}
fn dom_code(d: Dom) -> (u8, u32, u32) {
    match d {
        Dom::Energy => (0, 0, 0),
        Dom::EnergyPos => (1, 0, 0),
        Dom::EnergySigned => (2, 0, 0),
        Dom::EnergyLazy => (3, 0, 0),
        Dom::EnergyR(a, b) => (4, a.to_bits(), b.to_bits()),
        Dom::Range(a, b) => (5, a.to_bits(), b.to_bits()),
        Dom::AnyBits => (6, 0, 0),
    }
}
fn dom_of(c: (u8, u32, u32)) -> Dom {
    match c.0 {
        0 => Dom::Energy,
        1 => Dom::EnergyPos,
        2 => Dom::EnergySigned,
        3 => Dom::EnergyLazy,
        4 => Dom::EnergyR(f32::from_bits(c.1), f32::from_bits(c.2)),
        5 => Dom::Range(f32::from_bits(c.1), f32::from_bits(c.2)),
        _ => Dom::AnyBits,
    }
}

pub fn snapshot_of(c: &Ctx) -> Snapshot {
    Snapshot {
        nodes: c.nodes.iter().map(|n| (op_code(n.op), arg_code(n.a), arg_code(n.b))).collect(),
        vals: c.val.iter().map(|v| v.to_bits()).collect(),
        born: c.born.clone(),
        vars: c.vars.iter().map(|v| SVar { node: v.node, name: v.name.clone(), dom: dom_code(v.dom), lo: v.lo.to_bits(), hi: v.hi.to_bits(), zero_ok: v.zero_ok }).collect(),
        names: c.names.iter().map(|(k, v)| (k.clone(), arg_code(Arg::of(*v)))).collect(),
        trace: c
            .trace
            .iter()
            .map(|d| SDec { cmp: match d.cmp { Cmp::Lt => 0, Cmp::Le => 1, Cmp::Eq => 2 }, a: arg_code(d.a), b: arg_code(d.b), side: d.side, regime: d.kind == Kind::Regime, vars: d.vars })
            .collect(),
        witness: c.witness.iter().map(|(k, v)| (k.clone(), *v)).collect(),
        internal_error: c.internal_error.clone(),
    }
}

/// Replace the current context by the child's snapshot (keeps the parent's recorded outputs / obligations).
pub fn install(json: &str) -> Result<(), String> {
    let s: Snapshot = serde_json::from_str(json).map_err(|e| format!("snapshot: {}", e))?;
    dag::with(|c| {
        let (outs, obs, notes) = (std::mem::take(&mut c.outs), std::mem::take(&mut c.obs), std::mem::take(&mut c.notes));
        let (seed, simplify) = (c.seed, c.simplify);
        *c = Ctx::new();
        c.seed = seed;
        c.simplify = simplify;
        c.outs = outs;
        c.obs = obs;
        c.notes = notes;
        for (i, n) in s.nodes.iter().enumerate() {
            let node = Node { op: op_of(n.0), a: arg_of(n.1), b: arg_of(n.2) };
            c.nodes.push(node);
            c.val.push(f32::from_bits(s.vals[i]));
            c.iv.push(Iv::TOP);
            c.born.push(s.born[i]);
            c.quant.push(i16::MIN);
            let vs = if node.op == Op::Var { [0u64; 4] } else { dag::vs_or(&c.vsof(node.a), &c.vsof(node.b)) };
            c.vset.push(vs);
            if node.op != Op::Var {
                c.cons.insert((node.op, node.a, node.b), i as u32);
            }
        }
        for (idx, v) in s.vars.iter().enumerate() {
            c.vset[v.node as usize] = dag::vs_bit(idx);
            let (lo, hi) = (f32::from_bits(v.lo), f32::from_bits(v.hi));
            c.iv[v.node as usize] = if dom_of(v.dom) == Dom::AnyBits { Iv::TOP } else { Iv { lo: if v.zero_ok { lo.min(0.0) } else { lo }, hi, nan: false, nz: lo < 0.0 } };
            c.vars.push(VarInfo { node: v.node, name: v.name.clone(), dom: dom_of(v.dom), lo, hi, zero_ok: v.zero_ok });
        }
        // variable sets of derived nodes (vars were assigned after the first pass)
        for i in 0..c.nodes.len() {
            let n = c.nodes[i];
            if n.op != Op::Var {
                c.vset[i] = dag::vs_or(&c.vsof(n.a), &c.vsof(n.b));
            }
        }
        for (k, a) in &s.names {
            c.names.insert(k.clone(), arg_of(*a).sf());
        }
        for d in &s.trace {
            c.trace.push(Decision { cmp: [Cmp::Lt, Cmp::Le, Cmp::Eq][d.cmp as usize], a: arg_of(d.a), b: arg_of(d.b), side: d.side, kind: if d.regime { Kind::Regime } else { Kind::Branch }, vars: d.vars });
        }
        c.witness = s.witness.iter().cloned().collect::<StdMap<String, u32>>();
        c.internal_error = s.internal_error.clone();
        c.spec_mode = true;
    });
    Ok(())
}

extern "C" {
    fn atexit(cb: extern "C" fn()) -> i32;
}

extern "C" fn dump_at_exit() {
    if let Ok(path) = std::env::var("VERIF_PROC_OUT") {
        let snap = dag::CTX.try_with(|c| c.try_borrow().ok().map(|c| snapshot_of(&**c))).ok().flatten();
        if let Some(s) = snap {
            if let Ok(js) = serde_json::to_string(&s) {
                let _ = std::fs::write(&path, js);
            }
        }
    }
}

/// Child side: called once, on the first use of the context.
pub fn child_init(c: &mut Ctx) {
    if std::env::var("VERIF_PROC_OUT").is_err() {
        return;
    }
    if let Ok(p) = std::env::var("VERIF_PROC_WITNESS") {
        if let Ok(js) = std::fs::read_to_string(&p) {
            if let Ok(m) = serde_json::from_str::<StdMap<String, String>>(&js) {
                c.witness = m.into_iter().filter_map(|(k, v)| u32::from_str_radix(&v, 16).ok().map(|b| (k, b))).collect();
            }
        }
    }
    c.seed = std::env::var("VERIF_SEED").ok().and_then(|s| s.parse().ok()).unwrap_or(0);
    unsafe {
        atexit(dump_at_exit);
    }
}
