//! The interface the harness is written against, implemented by `Sf` (lifted build: symbolic
//! inputs, obligations are formulas) and by `f32` (native build against the untouched crate:
//! inputs come from a replayed assignment, obligations are booleans).

use crate::bx::Bx;
use crate::dag::{self, Cmp, Dom};
use crate::Sf;
use std::cell::RefCell;
use std::collections::HashMap as StdMap;

pub trait Logic: Clone {
    fn t() -> Self;
    fn f() -> Self;
    fn and(self, o: Self) -> Self;
    fn or(self, o: Self) -> Self;
    fn not(self) -> Self;
    fn implies(self, o: Self) -> Self {
        self.not().or(o)
    }
    fn all<I: IntoIterator<Item = Self>>(it: I) -> Self {
        it.into_iter().fold(Self::t(), |a, b| a.and(b))
    }
    fn any<I: IntoIterator<Item = Self>>(it: I) -> Self {
        it.into_iter().fold(Self::f(), |a, b| a.or(b))
    }
    fn record(name: &str, b: Self);
    /// `premises` imply `direct` through the named lemma (rt/lemmas/<lemma>.smt2); the native
    /// build evaluates `direct`.
    fn record_via(name: &str, lemma: &str, premises: Self, direct: Self);
}

impl Logic for bool {
    fn t() -> bool {
        true
    }
    fn f() -> bool {
        false
    }
    fn and(self, o: bool) -> bool {
        self && o
    }
    fn or(self, o: bool) -> bool {
        self || o
    }
    fn not(self) -> bool {
        !self
    }
    fn record(name: &str, b: bool) {
        NATIVE.with(|n| n.borrow_mut().obs.push((name.to_string(), b)));
    }
    fn record_via(name: &str, _lemma: &str, _premises: bool, direct: bool) {
        NATIVE.with(|n| n.borrow_mut().obs.push((name.to_string(), direct)));
    }
}

impl Logic for Bx {
    fn t() -> Bx {
        Bx::T
    }
    fn f() -> Bx {
        Bx::F
    }
    fn and(self, o: Bx) -> Bx {
        Bx::and(self, o)
    }
    fn or(self, o: Bx) -> Bx {
        Bx::or(self, o)
    }
    fn not(self) -> Bx {
        Bx::not(self)
    }
    fn record(name: &str, b: Bx) {
        dag::with(|c| c.obs.push(dag::Ob { name: name.to_string(), direct: b, via: None }));
    }
    fn record_via(name: &str, lemma: &str, premises: Bx, direct: Bx) {
        dag::with(|c| c.obs.push(dag::Ob { name: name.to_string(), direct, via: Some((lemma.to_string(), premises)) }));
    }
}

pub trait Scalar:
    Copy
    + std::fmt::Debug
    + std::fmt::Display
    + std::str::FromStr
    + Default
    + std::ops::Add<Output = Self>
    + std::ops::Sub<Output = Self>
    + std::ops::Mul<Output = Self>
    + std::ops::Div<Output = Self>
    + std::ops::Neg<Output = Self>
    + 'static
{
    type B: Logic;
    const LIFTED: bool;
    fn k(v: f32) -> Self;
    /// declare / look up an input
    fn input(name: &str, dom: Dom) -> Self;
    fn le_(self, o: Self) -> Self::B;
    fn lt_(self, o: Self) -> Self::B;
    fn eq_(self, o: Self) -> Self::B;
    fn nan(self) -> Self::B;
    fn abs_(self) -> Self;
    fn min_(self, o: Self) -> Self;
    fn max_(self, o: Self) -> Self;
    fn round_(self) -> Self;
    /// same constant / same DAG node (native: same bits, or both zero, or both NaN)
    fn same(self, o: Self) -> bool;
    /// witness value (native: the value itself)
    fn shadow(self) -> f32;
    fn record(name: &str, v: Self);
    fn note(s: String);
    /// make `name` denote the value `v` (instead of a fresh input)
    fn alias(name: &str, v: Self);
    /// the harness is about to build specification terms (true) / call the code under test (false)
    fn spec(on: bool);

    fn ge_(self, o: Self) -> Self::B {
        o.le_(self)
    }
    fn gt_(self, o: Self) -> Self::B {
        o.lt_(self)
    }
    /// exact equality, true also when both are NaN; closes syntactically when `same`
    fn ident(self, o: Self) -> Self::B {
        if self.same(o) {
            return <Self::B as Logic>::t();
        }
        self.eq_(o).or(self.nan().and(o.nan()))
    }
    /// |a - b| <= k * 2^-23 * m   (DESIGN.md section 3.2)
    fn approx(self, o: Self, k: f32, m: Self) -> Self::B {
        if self.same(o) {
            return <Self::B as Logic>::t();
        }
        (self - o).abs_().le_(Self::k(k * f32::EPSILON) * m.abs_())
    }
    /// equal up to a printed precision of `decimals` places: the symbolic build abstracts decimal rendering (a
    /// printed number denotes its value, so this is `ident`); the native build compares within half a unit of
    /// the last printed place (`slack` scales the bound for values computed from several re-read numbers)
    fn close_dec(self, o: Self, decimals: i32, slack: f32) -> Self::B;
    /// the sum as `core::iter::Sum for f32` computes it
    fn sum<I: IntoIterator<Item = Self>>(it: I) -> Self {
        it.into_iter().fold(Self::k(-0.0), |a, b| a + b)
    }
}

#[derive(Default)]
pub struct NativeRec {
    pub assign: StdMap<String, f32>,
    pub outs: Vec<(String, f32)>,
    pub obs: Vec<(String, bool)>,
    pub notes: Vec<String>,
    pub seed: u64,
    pub missing: Vec<String>,
}

thread_local! {
    pub static NATIVE: RefCell<NativeRec> = RefCell::new(NativeRec::default());
}

pub fn native_reset(assign: StdMap<String, f32>, seed: u64) {
    NATIVE.with(|n| {
        *n.borrow_mut() = NativeRec { assign, seed, ..Default::default() };
    })
}

pub fn native_take() -> NativeRec {
    NATIVE.with(|n| std::mem::take(&mut *n.borrow_mut()))
}

impl Scalar for f32 {
    type B = bool;
    const LIFTED: bool = false;
    fn k(v: f32) -> f32 {
        v
    }
    fn input(name: &str, dom: Dom) -> f32 {
        NATIVE.with(|n| {
            let mut n = n.borrow_mut();
            match n.assign.get(name) {
                Some(v) => *v,
                None => {
                    let v = dag::default_value(name, dom, n.seed);
                    n.missing.push(name.to_string());
                    n.assign.insert(name.to_string(), v);
                    v
                }
            }
        })
    }
    fn le_(self, o: f32) -> bool {
        self <= o
    }
    fn lt_(self, o: f32) -> bool {
        self < o
    }
    fn eq_(self, o: f32) -> bool {
        self == o
    }
    fn nan(self) -> bool {
        self.is_nan()
    }
    fn abs_(self) -> f32 {
        self.abs()
    }
    fn min_(self, o: f32) -> f32 {
        self.min(o)
    }
    fn max_(self, o: f32) -> f32 {
        self.max(o)
    }
    fn round_(self) -> f32 {
        self.round()
    }
    fn same(self, o: f32) -> bool {
        self.to_bits() == o.to_bits()
    }
    fn close_dec(self, o: f32, decimals: i32, slack: f32) -> bool {
        if self.is_nan() || o.is_nan() {
            return self.is_nan() && o.is_nan();
        }
        if self == o {
            return true;
        }
        let half = 0.5 * 10f64.powi(-decimals) * 1.001;
        ((self as f64) - (o as f64)).abs() <= (half + (o.abs() as f64) * 2.4e-7) * slack as f64
    }
    fn shadow(self) -> f32 {
        self
    }
    fn record(name: &str, v: f32) {
        NATIVE.with(|n| n.borrow_mut().outs.push((name.to_string(), v)));
    }
    fn note(s: String) {
        NATIVE.with(|n| n.borrow_mut().notes.push(s));
    }
    fn spec(_on: bool) {}
    fn alias(name: &str, v: f32) {
        NATIVE.with(|n| {
            n.borrow_mut().assign.insert(name.to_string(), v);
        })
    }
}

impl Scalar for Sf {
    type B = Bx;
    const LIFTED: bool = true;
    fn k(v: f32) -> Sf {
        Sf::C(v)
    }
    fn input(name: &str, dom: Dom) -> Sf {
        dag::input(name, dom)
    }
    fn le_(self, o: Sf) -> Bx {
        Bx::cmp(Cmp::Le, self, o)
    }
    fn lt_(self, o: Sf) -> Bx {
        Bx::cmp(Cmp::Lt, self, o)
    }
    fn eq_(self, o: Sf) -> Bx {
        Bx::cmp(Cmp::Eq, self, o)
    }
    fn nan(self) -> Bx {
        Bx::is_nan(self)
    }
    fn abs_(self) -> Sf {
        self.abs()
    }
    fn min_(self, o: Sf) -> Sf {
        self.min(o)
    }
    fn max_(self, o: Sf) -> Sf {
        self.max(o)
    }
    fn round_(self) -> Sf {
        self.round()
    }
    fn same(self, o: Sf) -> bool {
        Sf::same(self, o)
    }
    fn close_dec(self, o: Sf, _decimals: i32, _slack: f32) -> Bx {
        Scalar::ident(self, o)
    }
    fn shadow(self) -> f32 {
        Sf::shadow(self)
    }
    fn record(name: &str, v: Sf) {
        dag::with(|c| c.outs.push((name.to_string(), v)));
    }
    fn note(s: String) {
        dag::with(|c| c.notes.push(s));
    }
    fn spec(on: bool) {
        dag::spec_mode(on)
    }
    fn alias(name: &str, v: Sf) {
        dag::with(|c| {
            c.names.insert(name.to_string(), v);
        })
    }
}
