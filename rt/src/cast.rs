//! Numeric `as` casts of lifted code (lift rule R6): `E as T` becomes `cast::to_T(E)`.
//!
//! * between primitive types the cast is the machine's;
//! * integer or f64 -> f32 gives the constant `Sf::C(v as f32)`;
//! * symbolic f32 -> integer *concretises*: the result is the cast of the path witness's value, and the path
//!   condition is extended, through ordinary recorded comparisons, with the statement that pins the truncated
//!   value (`c <= x < c + 1` for c >= 0, `c - 1 < x <= c` for c <= 0, `x == v` beyond 2^24 where every binary32
//!   value is an integer, `x != x` for NaN); flipping those decisions reaches the neighbouring integers;
//! * symbolic f32 -> f64 pins the exact value.
use crate::Sf;

pub trait CastTo<T> {
    fn cast_to(self) -> T;
}

macro_rules! prim_pairs {
    ($($a:ty),*) => { $( prim_pairs!(@to $a; i8, i16, i32, i64, i128, isize, u8, u16, u32, u64, u128, usize, f64); )* };
    (@to $a:ty; $($b:ty),*) => { $( impl CastTo<$b> for $a { #[inline] fn cast_to(self) -> $b { self as $b } } )* };
}
prim_pairs!(i8, i16, i32, i64, i128, isize, u8, u16, u32, u64, u128, usize, f64);

macro_rules! to_sf {
    ($($a:ty),*) => { $( impl CastTo<Sf> for $a { #[inline] fn cast_to(self) -> Sf { Sf::C(self as f32) } } )* };
}
to_sf!(i8, i16, i32, i64, i128, isize, u8, u16, u32, u64, u128, usize, f64);
impl CastTo<Sf> for Sf {
    fn cast_to(self) -> Sf {
        self
    }
}
macro_rules! from_small {
    ($($b:ty),*) => { $(
        impl CastTo<$b> for bool { #[inline] fn cast_to(self) -> $b { self as $b } }
    )* };
}
from_small!(i8, i16, i32, i64, i128, isize, u8, u16, u32, u64, u128, usize);
macro_rules! from_char {
    ($($b:ty),*) => { $( impl CastTo<$b> for char { #[inline] fn cast_to(self) -> $b { self as $b } } )* };
}
from_char!(i8, i16, i32, i64, i128, isize, u8, u16, u32, u64, u128, usize);

/// Extend the path condition so that every input of the path gives the same truncated value as the witness.
fn pin_trunc(s: Sf) -> f32 {
    let v = s.shadow();
    if let Sf::C(_) = s {
        return v;
    }
    if v.is_nan() {
        let _ = s != s;
        return v;
    }
    let c = v.trunc();
    if c.abs() >= 16_777_216.0 || v.is_infinite() {
        let _ = s == Sf::C(v);
        return v;
    }
    if c > 0.0 {
        let _ = s >= Sf::C(c) && s < Sf::C(c + 1.0);
    } else if c < 0.0 {
        let _ = s > Sf::C(c - 1.0) && s <= Sf::C(c);
    } else {
        let _ = s > Sf::C(-1.0) && s < Sf::C(1.0);
    }
    v
}

macro_rules! sf_to_int {
    ($($b:ty),*) => { $( impl CastTo<$b> for Sf { fn cast_to(self) -> $b { pin_trunc(self) as $b } } )* };
}
sf_to_int!(i8, i16, i32, i64, i128, isize, u8, u16, u32, u64, u128, usize);
impl CastTo<f64> for Sf {
    fn cast_to(self) -> f64 {
        let v = self.shadow();
        if let Sf::S(_) = self {
            if v.is_nan() {
                let _ = self != self;
            } else {
                let _ = self == Sf::C(v);
            }
        }
        v as f64
    }
}

macro_rules! fns {
    ($($name:ident : $t:ty),*) => { $( #[inline] pub fn $name<X: CastTo<$t>>(x: X) -> $t { x.cast_to() } )* };
}
fns!(to_i8: i8, to_i16: i16, to_i32: i32, to_i64: i64, to_i128: i128, to_isize: isize, to_u8: u8, to_u16: u16, to_u32: u32, to_u64: u64, to_u128: u128, to_usize: usize, to_f64: f64, to_f32: Sf);
