//! Boolean formulas over DAG nodes: the language of obligations and path conditions.

use crate::dag::{apply_cmp, iv_decide, Arg, Cmp, Ctx, VarSet};
use crate::Sf;

#[derive(Clone, Debug, PartialEq)]
pub enum Bx {
    T,
    F,
    Cmp(Cmp, Arg, Arg),
    IsNan(Arg),
    Not(Box<Bx>),
    And(Vec<Bx>),
    Or(Vec<Bx>),
}

impl Bx {
    pub fn cmp(cmp: Cmp, a: Sf, b: Sf) -> Bx {
        let (ka, kb) = (Arg::of(a), Arg::of(b));
        if let (Sf::C(x), Sf::C(y)) = (a, b) {
            return if apply_cmp(cmp, x, y) { Bx::T } else { Bx::F };
        }
        Bx::Cmp(cmp, ka, kb)
    }
    pub fn is_nan(a: Sf) -> Bx {
        match a {
            Sf::C(v) => {
                if v.is_nan() {
                    Bx::T
                } else {
                    Bx::F
                }
            }
            Sf::S(_) => Bx::IsNan(Arg::of(a)),
        }
    }
    pub fn not(self) -> Bx {
        match self {
            Bx::T => Bx::F,
            Bx::F => Bx::T,
            Bx::Not(b) => *b,
            b => Bx::Not(Box::new(b)),
        }
    }
    pub fn and(self, o: Bx) -> Bx {
        match (self, o) {
            (Bx::F, _) | (_, Bx::F) => Bx::F,
            (Bx::T, b) | (b, Bx::T) => b,
            (Bx::And(mut a), Bx::And(b)) => {
                a.extend(b);
                Bx::And(a)
            }
            (Bx::And(mut a), b) => {
                a.push(b);
                Bx::And(a)
            }
            (a, b) => Bx::And(vec![a, b]),
        }
    }
    pub fn or(self, o: Bx) -> Bx {
        match (self, o) {
            (Bx::T, _) | (_, Bx::T) => Bx::T,
            (Bx::F, b) | (b, Bx::F) => b,
            (Bx::Or(mut a), Bx::Or(b)) => {
                a.extend(b);
                Bx::Or(a)
            }
            (Bx::Or(mut a), b) => {
                a.push(b);
                Bx::Or(a)
            }
            (a, b) => Bx::Or(vec![a, b]),
        }
    }
    pub fn implies(self, o: Bx) -> Bx {
        self.not().or(o)
    }

    /// Fold comparisons whose two sides are the same node (valid by reflexivity for non-NaN).
    pub fn fold_identity(&self, c: &Ctx) -> Bx {
        match self {
            Bx::Cmp(cmp, a, b) if a == b => {
                let iv = c.ivof(*a);
                if iv.nan {
                    self.clone()
                } else if *cmp == Cmp::Lt {
                    Bx::F
                } else {
                    Bx::T
                }
            }
            Bx::Not(b) => b.fold_identity(c).not(),
            Bx::And(v) => v.iter().fold(Bx::T, |acc, b| acc.and(b.fold_identity(c))),
            Bx::Or(v) => v.iter().fold(Bx::F, |acc, b| acc.or(b.fold_identity(c))),
            b => b.clone(),
        }
    }

    /// Truth value under node values `val` (None: the context's own shadow values).
    pub fn eval(&self, c: &Ctx, val: Option<&[f32]>) -> bool {
        let g = |x: Arg| match (x, val) {
            (Arg::K(b), _) => f32::from_bits(b),
            (Arg::N(i), Some(v)) => v[i as usize],
            (Arg::N(i), None) => c.val[i as usize],
        };
        match self {
            Bx::T => true,
            Bx::F => false,
            Bx::Cmp(cmp, a, b) => apply_cmp(*cmp, g(*a), g(*b)),
            Bx::IsNan(a) => g(*a).is_nan(),
            Bx::Not(b) => !b.eval(c, val),
            Bx::And(v) => v.iter().all(|b| b.eval(c, val)),
            Bx::Or(v) => v.iter().any(|b| b.eval(c, val)),
        }
    }

    /// Truth value if it is the same for every value in the nodes' intervals.
    pub fn iv_eval(&self, c: &Ctx, facts: bool) -> Option<bool> {
        match self {
            Bx::T => Some(true),
            Bx::F => Some(false),
            Bx::Cmp(cmp, a, b) => match iv_decide(*cmp, &c.ivof(*a), &c.ivof(*b)) {
                Some(x) => Some(x),
                None if facts => match cmp {
                    Cmp::Le if c.known_le(*a, *b) => Some(true),
                    Cmp::Lt if c.known_le(*b, *a) => Some(false),
                    _ => None,
                },
                None => None,
            },
            Bx::IsNan(a) => {
                if !c.ivof(*a).nan {
                    Some(false)
                } else {
                    None
                }
            }
            Bx::Not(b) => b.iv_eval(c, facts).map(|x| !x),
            Bx::And(v) => {
                let mut all = true;
                for b in v {
                    match b.iv_eval(c, facts) {
                        Some(false) => return Some(false),
                        Some(true) => {}
                        None => all = false,
                    }
                }
                if all {
                    Some(true)
                } else {
                    None
                }
            }
            Bx::Or(v) => {
                let mut none = true;
                for b in v {
                    match b.iv_eval(c, facts) {
                        Some(true) => return Some(true),
                        Some(false) => {}
                        None => none = false,
                    }
                }
                if none {
                    Some(false)
                } else {
                    None
                }
            }
        }
    }

    pub fn args(&self, out: &mut Vec<Arg>) {
        match self {
            Bx::T | Bx::F => {}
            Bx::Cmp(_, a, b) => {
                out.push(*a);
                out.push(*b);
            }
            Bx::IsNan(a) => out.push(*a),
            Bx::Not(b) => b.args(out),
            Bx::And(v) | Bx::Or(v) => v.iter().for_each(|b| b.args(out)),
        }
    }

    pub fn vars(&self, c: &Ctx) -> VarSet {
        let mut v = vec![];
        self.args(&mut v);
        v.iter().fold([0u64; 4], |acc, a| crate::dag::vs_or(&acc, &c.vsof(*a)))
    }

    /// Number of leading decisions that can matter for this formula (see `Ctx::born`).
    pub fn bound(&self, c: &Ctx) -> usize {
        let mut v = vec![];
        self.args(&mut v);
        v.iter().map(|a| c.bornof(*a)).max().unwrap_or(0) as usize
    }

    pub fn show(&self, c: &Ctx, depth: u32) -> String {
        match self {
            Bx::T => "true".into(),
            Bx::F => "false".into(),
            Bx::Cmp(cmp, a, b) => format!("{} {} {}", c.show(*a, depth), match cmp { Cmp::Lt => "<", Cmp::Le => "<=", Cmp::Eq => "==" }, c.show(*b, depth)),
            Bx::IsNan(a) => format!("isnan({})", c.show(*a, depth)),
            Bx::Not(b) => format!("!({})", b.show(c, depth)),
            Bx::And(v) => v.iter().map(|b| format!("({})", b.show(c, depth))).collect::<Vec<_>>().join(" && "),
            Bx::Or(v) => v.iter().map(|b| format!("({})", b.show(c, depth))).collect::<Vec<_>>().join(" || "),
        }
    }

    pub fn size(&self) -> usize {
        match self {
            Bx::Not(b) => 1 + b.size(),
            Bx::And(v) | Bx::Or(v) => 1 + v.iter().map(|b| b.size()).sum::<usize>(),
            _ => 1,
        }
    }
}
