/* Lemma "expmono" for all finite binary32 values; expected: VERIFICATION SUCCESSFUL (cbmc --external-sat-solver kissat)
   p <= q  =>  p - min(u, p) <= q - min(u, q)      (the exported part max(p - u, 0) is monotone in the production) */
#include <math.h>
float nondet_float();
int main(){ float u=nondet_float(), p=nondet_float(), q=nondet_float();
 __CPROVER_assume(!isnan(u)&&!isinf(u)&&!isnan(p)&&!isinf(p)&&!isnan(q)&&!isinf(q));
 __CPROVER_assume(p<=q);
 float x=p-fminf(u,p), y=q-fminf(u,q);
 __CPROVER_assert(x<=y,"mono"); }
