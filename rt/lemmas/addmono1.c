/* Lemma "addmono1" for all finite binary32 values; expected: VERIFICATION SUCCESSFUL (cbmc --external-sat-solver kissat)
   a <= c  =>  a + b <= c + b   (correctly rounded addition is monotone; chained twice for both operands) */
#include <math.h>
float nondet_float();
int main(){ float a=nondet_float(), b=nondet_float(), c=nondet_float();
 __CPROVER_assume(!isnan(a)&&!isinf(a)&&!isnan(b)&&!isinf(b)&&!isnan(c)&&!isinf(c));
 __CPROVER_assume(a<=c);
 float x=a+b, y=c+b;
 __CPROVER_assert(x<=y,"mono"); }
