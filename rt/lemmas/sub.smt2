; Lemma "sub" (all binary32 values under the stated side conditions); expected answer: unsat
; b <= a  =>  a - b >= 0
(set-logic QF_FP)
(define-sort F () (_ FloatingPoint 8 24))
(declare-const a F)(declare-const b F)
(define-fun zero () F (_ +zero 8 24))
(define-fun one () F ((_ to_fp 8 24) #x3f800000))
(define-fun big () F ((_ to_fp 8 24) #x7149f2ca)) ; 1e30
(define-fun eps2 () F ((_ to_fp 8 24) #x34800000)) ; 2 * 2^-23
(define-fun fin ((x F)) Bool (and (not (fp.isNaN x)) (not (fp.isInfinite x))))
(assert (and (fin a) (fin b) (fp.leq b a))) (assert (not (fp.leq zero (fp.sub RNE a b))))
(check-sat)
