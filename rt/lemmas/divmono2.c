/* Lemma "divmono2" for all finite binary32 values; expected: VERIFICATION SUCCESSFUL (cbmc --external-sat-solver kissat)
   a >= 0 and 0 < b <= c  =>  a / c <= a / b */
#include <math.h>
float nondet_float();
int main(){ float a=nondet_float(), b=nondet_float(), c=nondet_float();
 __CPROVER_assume(!isnan(a)&&!isinf(a)&&!isnan(b)&&!isinf(b)&&!isnan(c)&&!isinf(c));
 __CPROVER_assume(a>=0.0f && b>0.0f && b<=c); float x=a/c, y=a/b; __CPROVER_assert(x<=y,"mono");
 }
