/* Lemma "divle1" for all finite binary32 values; expected: VERIFICATION SUCCESSFUL (cbmc --external-sat-solver kissat)
   0 <= a <= b, b > 0  =>  0 <= a / b <= 1 */
#include <math.h>
float nondet_float();
int main(){ float a=nondet_float(), b=nondet_float(), c=nondet_float();
 __CPROVER_assume(!isnan(a)&&!isinf(a)&&!isnan(b)&&!isinf(b)&&!isnan(c)&&!isinf(c));
 __CPROVER_assume(a>=0.0f && b>0.0f && a<=b); float x=a/b; __CPROVER_assert(x<=1.0f && x>=0.0f,"frac");
 }
