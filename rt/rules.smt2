; Exact rewrite rules of rt/src/dag.rs::simplify, each proved for all binary32 values under its side
; condition.  `=` is SMT-LIB identity of floating-point values (bit identity up to the single NaN).
; Run: cvc5 --lang smt2 --incremental rules.smt2   -> every answer must be `unsat`.
(set-logic QF_FP)
(define-sort F () (_ FloatingPoint 8 24))
(declare-const x F)(declare-const y F)
(define-fun zero () F (_ +zero 8 24))
(define-fun nzero () F (_ -zero 8 24))
(define-fun one () F ((_ to_fp 8 24) #x3f800000))
(define-fun fin ((a F)) Bool (and (not (fp.isNaN a)) (not (fp.isInfinite a))))
(define-fun notnz ((a F)) Bool (not (= a nzero)))
; 1  1 * x = x
(push) (assert (not (= (fp.mul RNE one x) x))) (check-sat) (pop)
; 2  x / 1 = x
(push) (assert (not (= (fp.div RNE x one) x))) (check-sat) (pop)
; 3  (+0) * x = +0 for finite x >= 0, x not -0
(push) (assert (and (fin x) (fp.leq zero x) (notnz x))) (assert (not (= (fp.mul RNE zero x) zero))) (check-sat) (pop)
; 4  x / x = 1 for finite non-zero x
(push) (assert (and (fin x) (not (fp.isZero x)))) (assert (not (= (fp.div RNE x x) one))) (check-sat) (pop)
; 5  (+0) / x = +0 for finite x > 0
(push) (assert (and (fin x) (fp.lt zero x))) (assert (not (= (fp.div RNE zero x) zero))) (check-sat) (pop)
; 6  (-0) + x = x
(push) (assert (not (= (fp.add RNE nzero x) x))) (check-sat) (pop)
; 7  (+0) + x = x unless x is -0
(push) (assert (notnz x)) (assert (not (= (fp.add RNE zero x) x))) (check-sat) (pop)
; 8  x - (+0) = x
(push) (assert (not (= (fp.sub RNE x zero) x))) (check-sat) (pop)
; 9  min(x, x) = x, max(x, x) = x
(push) (assert (not (and (= (fp.min x x) x) (= (fp.max x x) x)))) (check-sat) (pop)
; 10 x <= y, not zeros of different sign  =>  min(x, y) = x and max(x, y) = y   (as values; equal operands give either)
(push) (assert (and (not (fp.isNaN x)) (not (fp.isNaN y)) (fp.leq x y) (or (not (fp.isZero x)) (and (notnz x) (notnz y)))))
       (assert (not (and (fp.eq (fp.min x y) x) (fp.eq (fp.max x y) y) (or (not (fp.isZero x)) (= (fp.min x y) zero))))) (check-sat) (pop)
; 11 x + (0 * y) = x for finite y and x that is not -0
(push) (assert (and (fin y) (notnz x))) (assert (not (= (fp.add RNE x (fp.mul RNE zero y)) x))) (check-sat) (pop)
; 12 |x| = x for x >= 0, x not -0
(push) (assert (and (not (fp.isNaN x)) (fp.leq zero x) (notnz x))) (assert (not (= (fp.abs x) x))) (check-sat) (pop)
