#!/bin/bash
# Runs every check of the manifest once (quick tier by default) against /repo and keeps the logs.
tier=${1:-quick}
mkdir -p /tmp/vt/sweep
cd /verif
for p in C01 C02 C03 C04 C05 C06 C07 C08 C09 C10 C11 C12 C13 C14 C15 C16 C17 C18 C19; do
  /usr/bin/time -f "$p wall %es" ./verif check $p --tier $tier > /tmp/vt/sweep/$p.log 2>/tmp/vt/sweep/$p.err
  echo "$p exit=$? $(tail -1 /tmp/vt/sweep/$p.log | cut -c1-230)"
done
