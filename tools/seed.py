#!/usr/bin/env python3
"""Confirm a sub-agent's mutation in its scratch worktree and store it under /verif/seeded/<name>/.

usage: seed.py <PROP> <k> [<worktree> [<name>]]     (reads <worktree>/OUT/mut<k>.diff, demo<k>.rs, meta<k>.txt)
Checks, in the worktree at the current /repo HEAD: the demo passes without the patch; with the patch the
crate compiles, the existing suite passes and the demo fails."""
import json, os, subprocess, sys, shutil
prop, k = sys.argv[1], sys.argv[2]
wt = sys.argv[3] if len(sys.argv) > 3 else '/tmp/mut/%s' % prop
name = sys.argv[4] if len(sys.argv) > 4 else k   # number under /verif/seeded/<PROP>-<name>
env = dict(os.environ, CARGO_NET_OFFLINE='true', CARGO_TARGET_DIR=os.path.join(wt, 'target'))
def sh(cmd, **kw):
    return subprocess.run(cmd, cwd=wt, env=env, stdout=subprocess.PIPE, stderr=subprocess.STDOUT, text=True, **kw)
head = subprocess.run(['git', '-C', '/repo', 'rev-parse', 'HEAD'], stdout=subprocess.PIPE, text=True).stdout.strip()
sh(['git', 'checkout', '-q', '--detach', head]); sh(['git', 'checkout', '--', '.'])
out = os.path.join(wt, 'OUT')
demo = 'demo%s_%s' % (prop.lower(), k)
shutil.copy(os.path.join(out, 'demo%s.rs' % k), os.path.join(wt, 'tests', demo + '.rs'))
res = {}
try:
    r = sh(['cargo', 'test', '--offline', '--test', demo]); res['demo_without_patch_passes'] = r.returncode == 0
    a = sh(['git', 'apply', os.path.join(out, 'mut%s.diff' % k)]); res['patch_applies_to_head'] = a.returncode == 0
    r = sh(['cargo', 'test', '--offline', '--test', demo]); res['demo_with_patch_fails'] = r.returncode != 0 and 'could not compile' not in r.stdout
    os.remove(os.path.join(wt, 'tests', demo + '.rs'))
    r = sh(['cargo', 'test', '--offline']); res['existing_suite_passes_with_patch'] = r.returncode == 0
    res['suite_tail'] = [l for l in r.stdout.splitlines() if l.startswith('test result')]
finally:
    try: os.remove(os.path.join(wt, 'tests', demo + '.rs'))
    except OSError: pass
    sh(['git', 'checkout', '--', '.'])
ok = all(res.get(x) for x in ('demo_without_patch_passes', 'patch_applies_to_head', 'demo_with_patch_fails', 'existing_suite_passes_with_patch'))
print(prop, k, 'CONFIRMED' if ok else 'REJECTED', json.dumps(res))
if ok:
    d = '/verif/seeded/%s-%s' % (prop, name)
    os.makedirs(d, exist_ok=True)
    shutil.copy(os.path.join(out, 'mut%s.diff' % k), os.path.join(d, 'patch.diff'))
    shutil.copy(os.path.join(out, 'demo%s.rs' % k), os.path.join(d, 'demo.rs'))
    meta = {'property': prop, 'base_commit': head, 'description_by_author': open(os.path.join(out, 'meta%s.txt' % k)).read(),
            'confirmed': res, 'what_i_ran': 'tools/seed.py %s %s: demo on HEAD (pass), git apply, demo (fail), cargo test --offline (pass)' % (prop, k),
            'detected_by': None}
    json.dump(meta, open(os.path.join(d, 'meta.json'), 'w'), indent=1)
