#!/usr/bin/env python3
"""Regenerates /verif/MANIFEST.json from the table below (single source of truth for what is claimed)."""
import json, os
HERE = os.path.dirname(os.path.dirname(os.path.abspath(__file__)))
props = [json.loads(l) for l in open(os.path.join(HERE, 'properties.jsonl'))]

TECH = ('symbolic execution of the real source with f32 lifted to a symbolic scalar (concolic path enumeration); '
        'per-path obligations decided by cvc5 (QF_FP, bit-precise binary32) and by instances of solver-proved lemmas '
        '(cvc5 / CBMC+kissat); counterexamples replayed on the untouched build')
NOTE = ('shapes (component kinds, carriers, ids, number of steps) are enumerated, values symbolic over the domains of DESIGN.md 3.1; '
        'trusted: lift.py rewrite rules, Sf operator -> SMT-LIB mapping, hash-map model with chosen iteration order, cvc5/CBMC verdicts; '
        'undecided queries are reported INCONCLUSIVE and never counted')

CLAIMED = {
    'C01': dict(ref='4/C01', text='bounded symbolic model checking: for each enumerated component shape (<= 6 lines, N <= 2 quick / <= 3 thorough) and both load-matching modes, every feasible path of parse+energy_performance is explored with symbolic energy values; the conservation identities are node identities, the closure and sign/bound clauses are decided by solver-proved lemmas or by cvc5 per path; every path witness is re-run on the untouched build and compared leaf by leaf'),
}
NA_DEFAULT = 'check not built yet (framework under construction; see DESIGN.md section 10)'
NA = {}

checks = []
for p in props:
    pid = p['id']
    if pid in CLAIMED:
        c = CLAIMED[pid]
        checks.append({
            'property_id': pid,
            'quick_cmd': './verif check %s --tier quick' % pid,
            'thorough_cmd': './verif check %s --tier thorough' % pid,
            'evidence_file': '/verif/evidence/%s.json' % pid,
            'replay_cmd_template': './verif replay {path}',
            'engine': 'S',
            'level_claimed': {'category': 'model_checking', 'text': c['text'], 'design_ref': c['ref']},
            'level_note': c.get('note', NOTE),
            'technique': c.get('technique', TECH),
        })
m = {
    'version': 1,
    'setup_cmd': './verif setup',
    'hooks': {'guard': 'none', 'enable': 'no hooks: every transformation (f32 -> Sf lifting, map model) is applied to a scratch copy of /repo made by each check',
              'baseline_off_cmd': 'cd /repo && cargo test --workspace --no-fail-fast --offline', 'source_commits': [], 'add_only': True},
    'engines': [{'name': 'S', 'path': '/verif/rt + /verif/lift + /verif/harness', 'serves_properties': sorted(CLAIMED),
                 'kind_free_text': 'lifted-scalar symbolic execution of the real Rust source; cvc5 QF_FP queries; lemma proofs by cvc5 and CBMC+kissat'}],
    'checks': checks,
    'not_applicable': [{'property_id': p['id'], 'reason': NA.get(p['id'], NA_DEFAULT)} for p in props if p['id'] not in CLAIMED],
    'notes': 'Exit codes: 0 held on everything explored (INCONCLUSIVE lines list undecided items), 1 VIOLATION, 2 tool failure. Known findings: /verif/known_findings.json.',
}
json.dump(m, open(os.path.join(HERE, 'MANIFEST.json'), 'w'), indent=1)
print('manifest: %d checks, %d not applicable' % (len(checks), len(m['not_applicable'])))
