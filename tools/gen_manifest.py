#!/usr/bin/env python3
"""Regenerates /verif/MANIFEST.json from the table below (single source of truth for what is claimed)."""
import json, os
HERE = os.path.dirname(os.path.dirname(os.path.abspath(__file__)))
props = [json.loads(l) for l in open(os.path.join(HERE, 'properties.jsonl'))]

TECH = ('symbolic execution of the real source with f32 lifted to a symbolic scalar (concolic path enumeration); '
        'per-path obligations decided by cvc5 (QF_FP, bit-precise binary32) and by instances of solver-proved lemmas '
        '(cvc5 / CBMC+kissat); counterexamples replayed on the untouched build')
NOTE = ('shapes (component kinds, carriers, ids, number of steps) are enumerated, values symbolic over the domains of DESIGN.md 3.1; '
        'trusted: lift.py rewrite rules, Sf operator -> SMT-LIB mapping, hash-map model with chosen iteration order, cvc5/CBMC verdicts; '
        'undecided queries are reported INCONCLUSIVE and never counted')

CLAIMED = {
    'C01': dict(ref='4/C01', text='bounded symbolic model checking: for each enumerated component shape (<= 6 lines, N <= 2 quick / <= 3 thorough) and both load-matching modes, every feasible path of parse+energy_performance is explored with symbolic energy values; the conservation identities are node identities, the closure and sign/bound clauses are decided by solver-proved lemmas or by cvc5 per path; every path witness is re-run on the untouched build and compared leaf by leaf'),
}
CLAIMED.update({
    'C02': dict(ref='4/C02', text='bounded symbolic model checking against a reference evaluator written in the harness from the equations of the standard and the five documented assumptions (from the declared inputs and the prepared factor list, with every factor of a user set its own symbolic variable, k_exp and area symbolic): per carrier the annual delivered / exported / used quantities, the weighted energy terms (del, exp_a, exp_ab, exp, A, B), the per-service shares, the building totals, per-m2 B and RER are the same DAG nodes as the reference terms on every feasible path; a wrong look-up (destination, step, source), averaging weight or cogeneration factor yields a term over different variables and a counterexample that must violate the tolerant statement on replay; a correct but differently associated implementation would be INCONCLUSIVE, not a violation'),
    'C03': dict(ref='4/C03', text='bounded symbolic model checking of three evaluations (k_exp symbolic, 0, 1) of the same symbolic building in one path context: every flow and step-A leaf is the same DAG node for all k; B(k) = del - (expA + k*expAB), A = del - expA, B(0) = A, B(1) are node identities over the reported fields (after solver-proved exact rewrites such as x + 0*y = x); the affine relation follows from these structural identities and is the replay predicate, not a solver-proved numeric bound'),
    'C04': dict(ref='4/C04', text='bounded symbolic model checking: every whole-building field is the fold over carriers of the per-carrier field (node identity with one of the accumulation orders), breakdown maps have exactly the keys present and the per-carrier entries, per-carrier delivered/exported splits are identities, every per-m2 leaf is the node (1/area)*absolute leaf, and a second symbolic area leaves every other leaf identical; the closeness of x*(1/a) to x/a is a standard two-rounding bound used as a flagged axiom (not solver-proved)'),
    'C05': dict(ref='4/C05', text='bounded symbolic model checking through the real text parser (values are placeholders): declared lines are found with identical value nodes, completion per system and step is the node max(0, use - declared production) on every feasible path of the per-step guards, nothing else is added, re-normalization is compared component by component; enumerated skeletons (ids incl. negative / omitted / repeated, partial / surplus / foreign production), N <= 2 quick'),
    'C06': dict(ref='4/C06', text='bounded symbolic model checking through the real text parser: per system with AUX lines and per step, every share is >= 0 and <= the declared energy (solver-proved lemma instances / cvc5), single-service systems keep their value nodes on that service, multi-service shares are node-identical to aux*|q_srv|/sum|q| (signed outputs symbolic over both signs), other systems are untouched, and the electricity balance exists and folds exactly the parsed uses and auxiliaries; that the shares add up to the declared energy follows from this structure by standard error analysis and is the replay predicate'),
    'C07': dict(ref='4/C07', text='bounded symbolic model checking through the real factor-file parser with every factor value symbolic: for enumerated skeletons (all subsets of user-given export factors in the thorough tier, forced factors given with other values, duplicates, unusable sets, the four locations, user RED1/RED2 given or not) forced factors are (1,0,0), user values keep their nodes and are what find returns, defaults are the on-site supply / grid supply nodes, RED1/RED2 follow user > file > default, re-preparation is the identity, unusable sets give MissingFactor, and a building over all carriers of the set evaluates without MissingFactor'),
    'C09': dict(ref='4/C09', text='bounded symbolic model checking of a symbolic building against its time-transformed copy in one path context: reversal of N = 2 steps (annual leaves are the same DAG nodes because IEEE addition commutes; per-step leaves are permuted) and subdivision of one step into two halves (power-of-two scaling normal form makes every annual leaf the same node and every per-step leaf half the base node); N = 3 permutations and N = 2 / m = 4 subdivisions are thorough-tier, tolerant and mostly INCONCLUSIVE unless violated; cogeneration and load matching included'),
    'C11': dict(ref='4/C11', text='bounded symbolic model checking of a symbolic building against its copy with every energy value multiplied by 2^j (j in [-6, 6], both copies inside the input domain) and against a copy with the area multiplied by 2^j: under the power-of-two scaling normal form every energy / weighted energy / emission leaf is the node 2^j * base leaf, every RER / matching factor / k_exp leaf and the DHW fraction are the same node, per-m2 leaves scale by 2^-j for the area; exactness of power-of-two scaling of intermediates is assumed (no underflow) and checked on every path witness by bit comparison with the untouched build; scale factors that are not powers of two are not covered'),
    'C10': dict(ref='4/C10', text='bounded symbolic model checking of base text versus rewritten text (line swaps and reversal, a line split into two symbolic parts whose sum node is the base value, injective non-monotone renumbering of ids, comments / blank lines / header / BOM / CRLF / padding, explicit vs omitted id 0, and another hash-iteration policy) through the real parser and energy_performance in one path context: every output leaf is the same DAG node (the tolerant statement is the replay predicate); rewritings that genuinely re-associate three-term sums are thorough-tier only and come back INCONCLUSIVE unless violated; "another process" is modelled by the iteration-order policies of DESIGN.md 3.4, not by std RandomState'),
    'C08': dict(ref='4/C08', text='bounded symbolic model checking of energy_performance(c, f) against energy_performance(c, f.strip(c)) in one path context: same outcome kind and every output leaf the same DAG node, for regulatory and fully symbolic user factor sets; panics of strip are reachability findings replayed on the untouched build'),
    'C12': dict(ref='4/C12', text='bounded symbolic model checking of the load-matching and non-load-matching evaluations of the same symbolic building: per-source allocations are node-identical to f*min(pv, use) and f*min(chp, use - min(pv, use)); f = 1 without load matching, f is the B.32 formula with 0.5 <= f <= 1 (solver-proved one-variable lemma) with it; self-use / grid delivery comparisons by solver-proved monotonicity lemma instances or cvc5 per path'),
    'C13': dict(ref='4/C13', text='bounded symbolic model checking for the four regulatory factor sets at k_exp = 0: RER is the node ren/(ren+nren) of the reported step-B energy (0 when the total is 0); range and nesting inequalities are decided per feasible path by cvc5 / lemma instances above a rounding-noise threshold; several of these inequalities time out and are reported INCONCLUSIVE'),
})
CLAIMED.update({
    'C14': dict(ref='4/C14', text='bounded symbolic model checking of a symbolic building against the same building with a symbolic non-negative increment of on-site electricity production at every step (regulatory factor sets, k_exp symbolic): non-renewable energy, CO2 (steps A and B) and grid-delivered energy of the second are <= those of the first, exactly, through instances of the solver-proved monotonicity lemmas of + and - and of the axioms for * and / (flagged), or by cvc5; the load-matching half and the RER clause are mostly beyond the lemma engine and come back INCONCLUSIVE unless violated'),
    'C16': dict(ref='4/C16', text='reachability of panics by bounded symbolic execution: for four base files and a corruption grammar (dropped / duplicated / swapped lines and fields, truncated or empty value lists, unknown tags, non-numeric tokens, output / auxiliary / demand lines first, only one line, legacy lines, two demands of different length) with every numeric field ranging over all 2^32 bit patterns (NaN, infinities, negatives, subnormals), every explored path of parse, normalize, strip, energy_performance, the DHW fraction and the three renderers ends in a value or a typed error; every path witness is also given to the real cteepbd binary built from the current tree in the dev and release profile, with and without -F, whose exit status must be 0/1/64/65/73/74 within 10 s; paths beyond the per-unit budget are reported INCONCLUSIVE; arbitrary byte-level corruption and non-UTF-8 input are outside the claim'),
})
CLAIMED.update({
    'C17': dict(ref='4/C17', text='bounded symbolic model checking with numbers abstracted as tokens that denote their value: on every feasible path each slot of the plain report (C_ep ren/nren/tot, E_CO2, RER, RER_nrb, k_exp, Area_ref, energy totals, the sorted per-service tables), of the XML document (kexp, AreaRef, Epm2, every value list in order) names the node of the documented field, the JSON document reads back into a structure whose every leaf is the original node (the three-decimal rounding of RenNrenCo2 included); the XML of every explored result (comments with < > & quotes backslash and non-ASCII, demands present or absent) is checked by a strict well-formedness scanner; decimal rendering ({:.1}, {:.2}, {:.3}) and escape_xml over all strings are outside the claim (the MIR-to-CBMC encoding of escape_xml planned in DESIGN.md 2.3 was not built)', note=NOTE + '; reduced strength: decimal formatting is abstracted, strings are concrete'),
    'C18': dict(ref='4/C18', text='bounded symbolic model checking with numbers abstracted as tokens that denote their value: components written with Display and parsed back have the same metadata, the same components in the same order with the same tags, ids, comments and value nodes, the same demands; factors likewise; evaluating the re-read pair gives leaf-identical results; legacy lines, comments, AUX / SALIDA / DEMANDA lines, negative ids and automatically completed components included; a change of the printed precision is not detected (stated bound)', note=NOTE + '; reduced strength: decimal formatting is abstracted'),
})
NA_DEFAULT = 'check not built yet (framework under construction; see DESIGN.md section 10)'
NA = {}

checks = []
for p in props:
    pid = p['id']
    if pid in CLAIMED:
        c = CLAIMED[pid]
        checks.append({
            'property_id': pid,
            'quick_cmd': './verif check %s --tier quick' % pid,
            'thorough_cmd': './verif check %s --tier thorough' % pid,
            'evidence_file': '/verif/evidence/%s.json' % pid,
            'replay_cmd_template': './verif replay {path}',
            'engine': 'S',
            'level_claimed': {'category': 'model_checking', 'text': c['text'], 'design_ref': c['ref']},
            'level_note': c.get('note', NOTE),
            'technique': c.get('technique', TECH),
        })
m = {
    'version': 1,
    'setup_cmd': './verif setup',
    'hooks': {'guard': 'none', 'enable': 'no hooks: every transformation (f32 -> Sf lifting, map model) is applied to a scratch copy of /repo made by each check',
              'baseline_off_cmd': 'cd /repo && cargo test --workspace --no-fail-fast --offline', 'source_commits': [], 'add_only': True},
    'engines': [{'name': 'S', 'path': '/verif/rt + /verif/lift + /verif/harness', 'serves_properties': sorted(CLAIMED),
                 'kind_free_text': 'lifted-scalar symbolic execution of the real Rust source; cvc5 QF_FP queries; lemma proofs by cvc5 and CBMC+kissat'}],
    'checks': checks,
    'not_applicable': [{'property_id': p['id'], 'reason': NA.get(p['id'], NA_DEFAULT)} for p in props if p['id'] not in CLAIMED],
    'notes': 'Exit codes: 0 held on everything explored (INCONCLUSIVE lines list undecided items), 1 VIOLATION, 2 tool failure. Known findings: /verif/known_findings.json.',
}
json.dump(m, open(os.path.join(HERE, 'MANIFEST.json'), 'w'), indent=1)
print('manifest: %d checks, %d not applicable' % (len(checks), len(m['not_applicable'])))
