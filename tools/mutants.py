#!/usr/bin/env python3
"""Run the relevant check against every seeded mutation (on a scratch copy of /repo, never /repo itself).

usage: mutants.py [name-regex] [--tier quick] [--jobs N]
Writes /verif/seeded/<name>/meta.json:detected_by and prints a detection table."""
import json, os, re, shutil, subprocess, sys, time
HERE = os.path.dirname(os.path.dirname(os.path.abspath(__file__)))
rx = sys.argv[1] if len(sys.argv) > 1 and not sys.argv[1].startswith('--') else '.'
tier = 'quick'
jobs = '6'
for i, a in enumerate(sys.argv):
    if a == '--tier': tier = sys.argv[i + 1]
    if a == '--jobs': jobs = sys.argv[i + 1]
rows = []
for name in sorted(os.listdir(os.path.join(HERE, 'seeded'))):
    d = os.path.join(HERE, 'seeded', name)
    if not re.search(rx, name) or not os.path.exists(os.path.join(d, 'patch.diff')):
        continue
    meta = json.load(open(os.path.join(d, 'meta.json')))
    props = meta.get('run_checks') or [meta['property']]
    scratch = '/tmp/mutrepo/%s' % name
    shutil.rmtree(scratch, ignore_errors=True)
    os.makedirs(scratch)
    subprocess.run('git -C /repo archive HEAD | tar -x -C %s' % scratch, shell=True, check=True)
    a = subprocess.run(['git', 'apply', '--directory=' + scratch.lstrip('/'), os.path.join(d, 'patch.diff')], cwd='/', stdout=subprocess.PIPE, stderr=subprocess.STDOUT, text=True)
    if a.returncode != 0:
        a = subprocess.run(['patch', '-p1', '-d', scratch, '-i', os.path.join(d, 'patch.diff')], stdout=subprocess.PIPE, stderr=subprocess.STDOUT, text=True)
    res = {}
    if a.returncode != 0:
        print(name, 'PATCH DOES NOT APPLY to /repo HEAD:', a.stdout.strip()[:200], flush=True)
        shutil.rmtree(scratch, ignore_errors=True)
        continue
    for p in props:
        t0 = time.time()
        r = subprocess.run([os.path.join(HERE, 'verif'), 'check', p, '--tier', tier, '--repo', scratch, '--jobs', jobs, '--no-evidence'], cwd=HERE,
                           stdout=subprocess.PIPE, stderr=subprocess.STDOUT, text=True)
        viol = [l for l in r.stdout.splitlines() if l.startswith('  violated:')]
        res[p] = {'exit': r.returncode, 'violations': len([l for l in r.stdout.splitlines() if l.startswith('VIOLATION')]),
                  'first': [v.strip()[:160] for v in viol[:3]], 'tool_failure': [l[:200] for l in r.stdout.splitlines() if l.startswith('TOOL-FAILURE')][:2], 'wall_s': round(time.time() - t0)}
    meta['detected_by'] = res
    json.dump(meta, open(os.path.join(d, 'meta.json'), 'w'), indent=1)
    shutil.rmtree(scratch, ignore_errors=True)
    shutil.rmtree('/tmp/verif-work/%s' % __import__('hashlib').sha1(scratch.encode()).hexdigest()[:8], ignore_errors=True)
    rows.append((name, res))
    print(name, json.dumps(res), flush=True)
