#!/usr/bin/env python3
"""Markdown table of the seeded changes and the measured detection (from seeded/*/meta.json)."""
import json, os, re
HERE = os.path.dirname(os.path.dirname(os.path.abspath(__file__)))
print('| seeded change | what it needs | check | result | first violated obligation |')
print('|---|---|---|---|---|')
for name in sorted(os.listdir(os.path.join(HERE, 'seeded'))):
    mp = os.path.join(HERE, 'seeded', name, 'meta.json')
    if not os.path.exists(mp):
        continue
    m = json.load(open(mp))
    desc = m.get('summary') or ' '.join(m['description_by_author'].split())[:150]
    for p, r in (m.get('detected_by') or {}).items():
        res = 'caught (exit 1, %d replays, %ds)' % (r['violations'], r['wall_s']) if r['exit'] == 1 else ('tool failure' if r['exit'] == 2 else 'MISSED')
        first = (r['first'][:1] or [''])[0].replace('violated: ', '').replace('|', '\\|')[:110]
        print('| %s | %s | %s | %s | %s |' % (name, desc.replace('|', '\\|'), p, res, first))
